#![no_main]
//! C11 (thorough tier): coverage-guided bytes -> parser, then the parsed patch is applied to a small
//! fixed file and rolled back. Oracle: no panic (the in-target catch_unwind turns one into an abort with
//! a message), libFuzzer's -malloc_limit_mb / -timeout bound memory and time.
use libfuzzer_sys::fuzz_target;
use rqv::inproc;

fuzz_target!(|data: &[u8]| {
    for strip in [0usize, 1] {
        if let inproc::Parsed::Panic(m) = inproc::parse_summary(data, strip) {
            eprintln!("C11 VIOLATION: parser panicked (strip {}): {}", strip, m);
            std::process::abort();
        }
    }
    if let Err(m) = inproc::apply_smoke(data) {
        eprintln!("C11 VIOLATION: {}", m);
        std::process::abort();
    }
});
