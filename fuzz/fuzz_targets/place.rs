#![no_main]
//! C02 / C03 / C04 (thorough tier): the fuzzer's bytes are the CHOICE STREAM of the harness's own
//! structured generators (4 bytes per choice), so coverage guidance steers the same generator the
//! random tier uses; the oracles are the harness checks (reference placement model, reconstruction
//! from reports, rollback inverse).
use libfuzzer_sys::fuzz_target;
use rqv::choose::Chooser;
use rqv::engine::{CaseCtx, Prop, Verdict};
use rqv::props::place::{check_c02, gen_place_case, GenOpts, C03};

fuzz_target!(|data: &[u8]| {
    let choices: Vec<u32> = data.chunks(4).map(|c| {
        let mut b = [0u8; 4];
        b[..c.len()].copy_from_slice(c);
        u32::from_le_bytes(b)
    }).collect();
    let env = rqv::fuzz_env();
    let mut ch = Chooser::new(&choices);
    let case = gen_place_case(&mut ch, &GenOpts { max_file: 16, max_hunks: 4, max_fuzz: 3 });
    let only = std::env::var("RQV_PLACE_ORACLE").unwrap_or_default();
    let want = |p: &str| only.is_empty() || only == p;
    let mut cx = CaseCtx::new(env);
    if !want("C02") {
    } else if let Verdict::Fail(m) = check_c02(&case, &mut cx) {
        eprintln!("C02 VIOLATION: {}\nCASE {}", m, rqv::to_json(&case));
        std::process::abort();
    }
    let mut cx = CaseCtx::new(env);
    if !want("C03") {
    } else if let Verdict::Fail(m) = C03.check(&case, &mut cx) {
        eprintln!("C03 VIOLATION: {}\nCASE {}", m, rqv::to_json(&case));
        std::process::abort();
    }
    // C04: apply + rollback must restore the file
    if !want("C04") {
        return;
    }
    match rqv::props::place::run_place(&case, case.fuzz, true) {
        Ok(h) => {
            if let Some(Ok(st)) = h.rollbacks.first() {
                if st.lines != case.file {
                    eprintln!("C04 VIOLATION: rollback did not restore the file\nCASE {}", rqv::to_json(&case));
                    std::process::abort();
                }
            } else if let Some(Err(e)) = h.rollbacks.first() {
                eprintln!("C04 VIOLATION: {}\nCASE {}", e, rqv::to_json(&case));
                std::process::abort();
            }
        }
        Err(Verdict::Fail(m)) => {
            eprintln!("C04 VIOLATION: {}\nCASE {}", m, rqv::to_json(&case));
            std::process::abort();
        }
        Err(_) => {}
    }
});
