#![no_main]
//! C12 (thorough tier): coverage-guided bytes through parse -> write -> parse -> write with the same
//! oracle (and the same exact known-finding signature) as the harness check.
use libfuzzer_sys::fuzz_target;
use rqv::engine::{CaseCtx, Prop, Verdict};
use rqv::props::c12::{Case, C12};

fuzz_target!(|data: &[u8]| {
    let env = rqv::fuzz_env();
    let mut cx = CaseCtx::new(env);
    let case = Case { data: rqv::bytes::B(data.to_vec()), origin: "libfuzzer".into() };
    if let Verdict::Fail(m) = C12.check(&case, &mut cx) {
        if let Some(kf) = C12.known_signature(&case, &m) {
            if env.known.is_open(kf) {
                return;
            }
        }
        eprintln!("C12 VIOLATION: {}", m);
        std::process::abort();
    }
});
