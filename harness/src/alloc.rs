//! Counting allocator: while armed, any single request above the limit ends the process
//! with exit code 86 after noting the size (the parent turns that into a reported case),
//! so "allocates out of proportion to the input" is decided without needing an OOM.

use std::alloc::{GlobalAlloc, Layout, System};
use std::sync::atomic::{AtomicBool, AtomicI64, AtomicUsize, Ordering};

pub struct Counting;

static ARMED: AtomicBool = AtomicBool::new(false);
static LIMIT: AtomicUsize = AtomicUsize::new(usize::MAX);
static CUR: AtomicI64 = AtomicI64::new(0);
static PEAK: AtomicI64 = AtomicI64::new(0);
static MAXREQ: AtomicUsize = AtomicUsize::new(0);
pub static NOTE_FD: AtomicI64 = AtomicI64::new(-1);

pub const EXIT_OVERSIZE: i32 = 86;

fn oversize(size: usize) -> ! {
    let fd = NOTE_FD.load(Ordering::Relaxed);
    if fd >= 0 {
        let mut buf = [0u8; 40];
        let mut n = size;
        let mut i = buf.len();
        if n == 0 {
            i -= 1;
            buf[i] = b'0';
        }
        while n > 0 {
            i -= 1;
            buf[i] = b'0' + (n % 10) as u8;
            n /= 10;
        }
        let msg = b"OVERSIZE ";
        unsafe {
            libc::write(fd as i32, msg.as_ptr() as *const _, msg.len());
            libc::write(fd as i32, buf[i..].as_ptr() as *const _, buf.len() - i);
            libc::write(fd as i32, b"\n".as_ptr() as *const _, 1);
        }
    }
    unsafe { libc::_exit(EXIT_OVERSIZE) }
}

#[inline]
fn note(size: usize) {
    if ARMED.load(Ordering::Relaxed) {
        if size > LIMIT.load(Ordering::Relaxed) {
            ARMED.store(false, Ordering::Relaxed);
            oversize(size);
        }
        MAXREQ.fetch_max(size, Ordering::Relaxed);
        let c = CUR.fetch_add(size as i64, Ordering::Relaxed) + size as i64;
        PEAK.fetch_max(c, Ordering::Relaxed);
    }
}

unsafe impl GlobalAlloc for Counting {
    unsafe fn alloc(&self, l: Layout) -> *mut u8 {
        note(l.size());
        System.alloc(l)
    }
    unsafe fn alloc_zeroed(&self, l: Layout) -> *mut u8 {
        note(l.size());
        System.alloc_zeroed(l)
    }
    unsafe fn dealloc(&self, p: *mut u8, l: Layout) {
        if ARMED.load(Ordering::Relaxed) {
            CUR.fetch_sub(l.size() as i64, Ordering::Relaxed);
        }
        System.dealloc(p, l)
    }
    unsafe fn realloc(&self, p: *mut u8, l: Layout, new: usize) -> *mut u8 {
        if new > l.size() {
            note(new - l.size());
            if ARMED.load(Ordering::Relaxed) && new > LIMIT.load(Ordering::Relaxed) {
                ARMED.store(false, Ordering::Relaxed);
                oversize(new);
            }
        } else if ARMED.load(Ordering::Relaxed) {
            CUR.fetch_sub((l.size() - new) as i64, Ordering::Relaxed);
        }
        System.realloc(p, l, new)
    }
}

/// Arm for one measured section; returns (max single request, peak live bytes) on disarm.
pub fn arm(limit: usize) {
    CUR.store(0, Ordering::Relaxed);
    PEAK.store(0, Ordering::Relaxed);
    MAXREQ.store(0, Ordering::Relaxed);
    LIMIT.store(limit, Ordering::Relaxed);
    ARMED.store(true, Ordering::SeqCst);
}

pub fn disarm() -> (usize, i64) {
    ARMED.store(false, Ordering::SeqCst);
    (MAXREQ.load(Ordering::Relaxed), PEAK.load(Ordering::Relaxed))
}
