//! Byte strings that serialise as readable, loss-free escaped ASCII.

use serde::{Deserialize, Deserializer, Serialize, Serializer};
use std::fmt;

#[derive(Clone, PartialEq, Eq, Hash, PartialOrd, Ord, Default)]
pub struct B(pub Vec<u8>);

impl B {
    pub fn new<T: AsRef<[u8]>>(t: T) -> B {
        B(t.as_ref().to_vec())
    }
    pub fn as_slice(&self) -> &[u8] {
        &self.0
    }
    pub fn len(&self) -> usize {
        self.0.len()
    }
    pub fn is_empty(&self) -> bool {
        self.0.is_empty()
    }
}

impl std::ops::Deref for B {
    type Target = [u8];
    fn deref(&self) -> &[u8] {
        &self.0
    }
}

pub fn esc(b: &[u8]) -> String {
    let mut s = String::with_capacity(b.len() + 8);
    for &c in b {
        match c {
            b'\\' => s.push_str("\\\\"),
            b'\n' => s.push_str("\\n"),
            b'\t' => s.push_str("\\t"),
            b'\r' => s.push_str("\\r"),
            0x20..=0x7e => s.push(c as char),
            _ => s.push_str(&format!("\\x{:02x}", c)),
        }
    }
    s
}

pub fn unesc(s: &str) -> Result<Vec<u8>, String> {
    let b = s.as_bytes();
    let mut out = Vec::with_capacity(b.len());
    let mut i = 0;
    while i < b.len() {
        if b[i] == b'\\' {
            i += 1;
            if i >= b.len() {
                return Err("dangling backslash".into());
            }
            match b[i] {
                b'\\' => out.push(b'\\'),
                b'n' => out.push(b'\n'),
                b't' => out.push(b'\t'),
                b'r' => out.push(b'\r'),
                b'x' => {
                    if i + 2 >= b.len() {
                        return Err("short \\x".into());
                    }
                    let h = std::str::from_utf8(&b[i + 1..i + 3]).map_err(|e| e.to_string())?;
                    out.push(u8::from_str_radix(h, 16).map_err(|e| e.to_string())?);
                    i += 2;
                }
                c => return Err(format!("bad escape \\{}", c as char)),
            }
            i += 1;
        } else {
            out.push(b[i]);
            i += 1;
        }
    }
    Ok(out)
}

impl fmt::Debug for B {
    fn fmt(&self, f: &mut fmt::Formatter) -> fmt::Result {
        write!(f, "b\"{}\"", esc(&self.0))
    }
}

impl Serialize for B {
    fn serialize<S: Serializer>(&self, s: S) -> Result<S::Ok, S::Error> {
        s.serialize_str(&esc(&self.0))
    }
}

impl<'de> Deserialize<'de> for B {
    fn deserialize<D: Deserializer<'de>>(d: D) -> Result<B, D::Error> {
        let s = String::deserialize(d)?;
        unesc(&s).map(B).map_err(serde::de::Error::custom)
    }
}

/// Split into lines keeping terminators (independent of libpatch's splitter).
pub fn split_lines(data: &[u8]) -> Vec<B> {
    let mut v = Vec::new();
    let mut start = 0;
    for (i, &c) in data.iter().enumerate() {
        if c == b'\n' {
            v.push(B(data[start..=i].to_vec()));
            start = i + 1;
        }
    }
    if start < data.len() {
        v.push(B(data[start..].to_vec()));
    }
    v
}

pub fn join_lines(lines: &[B]) -> Vec<u8> {
    let mut v = Vec::new();
    for l in lines {
        v.extend_from_slice(&l.0);
    }
    v
}

pub fn fnv(data: &[u8]) -> u64 {
    let mut h: u64 = 0xcbf29ce484222325;
    for &b in data {
        h ^= b as u64;
        h = h.wrapping_mul(0x100000001b3);
    }
    h
}
