//! A choice stream: every random decision of a generator is drawn, in order, from a
//! `Vec<u32>` produced by a proptest strategy. Generators are ordinary imperative code
//! over a `Chooser`; shrinking and replay are proptest's (it shrinks the vector:
//! deleting elements and moving values toward 0, and all index mappings here are
//! monotone, so smaller values mean "simpler" choices).

use crate::bytes::B;

pub struct Chooser<'a> {
    data: &'a [u32],
    pos: usize,
}

impl<'a> Chooser<'a> {
    pub fn new(data: &'a [u32]) -> Self {
        Chooser { data, pos: 0 }
    }
    pub fn raw(&mut self) -> u32 {
        let v = self.data.get(self.pos).copied().unwrap_or(0);
        self.pos += 1;
        v
    }
    pub fn used(&self) -> usize {
        self.pos
    }
    pub fn exhausted(&self) -> bool {
        self.pos >= self.data.len()
    }
    /// uniform in 0..n (n>=1), monotone in the raw value
    pub fn below(&mut self, n: usize) -> usize {
        if n <= 1 {
            // still consume, to keep streams aligned when n varies? No: consuming nothing
            // keeps shrunk streams short.
            return 0;
        }
        ((self.raw() as u64 * n as u64) >> 32) as usize
    }
    /// inclusive range
    pub fn range(&mut self, lo: usize, hi: usize) -> usize {
        lo + self.below(hi - lo + 1)
    }
    /// true with probability num/den; raw 0 => false (shrinks to false)
    pub fn chance(&mut self, num: u32, den: u32) -> bool {
        let v = self.below(den as usize) as u32;
        v >= den - num
    }
    pub fn pick<'b, T>(&mut self, xs: &'b [T]) -> &'b T {
        &xs[self.below(xs.len())]
    }
    /// weighted pick; returns index
    pub fn weighted(&mut self, w: &[u32]) -> usize {
        let total: u32 = w.iter().sum();
        let mut v = self.below(total as usize) as u32;
        for (i, &x) in w.iter().enumerate() {
            if v < x {
                return i;
            }
            v -= x;
        }
        w.len() - 1
    }
}

/// Line alphabets. Lines are produced WITHOUT terminator.
#[derive(Clone, Copy, Debug, PartialEq)]
pub enum Alphabet {
    Small(usize),
    Words,
    Nasty,
}

const WORDS: &[&str] = &[
    "alpha", "beta", "gamma", "delta", "int x;", "return 0;", "}", "{", "", "  foo(bar);", "# comment",
    "if (a) {", "else", "end", "x = x + 1", "lorem ipsum", "\tindented", "a b c", "0", "zz top",
];

const NASTY_PREFIX: &[&[u8]] = &[
    b"--- ", b"+++ ", b"@@ ", b"diff --git ", b"\\ ", b" ", b"\t", b"+", b"-", b"@@ -1,2 +1,2 @@", b"--- a/f", b"+++ b/f",
    b"Index: ", b"index 123..456", b"new file mode 100644", b"rename from x", b"\\ No newline at end of file", b"",
];

pub fn gen_line(ch: &mut Chooser, alpha: Alphabet) -> B {
    match alpha {
        Alphabet::Small(k) => {
            let i = ch.below(k);
            B(vec![b'a' + i as u8])
        }
        Alphabet::Words => {
            let w = WORDS[ch.below(WORDS.len())];
            if ch.chance(1, 4) {
                let n = ch.below(100);
                B(format!("{} {}", w, n).into_bytes())
            } else {
                B(w.as_bytes().to_vec())
            }
        }
        Alphabet::Nasty => {
            let mut v = Vec::new();
            if ch.chance(1, 2) {
                v.extend_from_slice(NASTY_PREFIX[ch.below(NASTY_PREFIX.len())]);
            }
            let n = ch.below(6);
            for _ in 0..n {
                let c = match ch.below(8) {
                    0 => 0u8,
                    1 => b'\r',
                    2 => 0x80 + ch.below(128) as u8,
                    3 => b' ',
                    4 => b'\t',
                    _ => {
                        let c = ch.below(256) as u8;
                        if c == b'\n' {
                            b'x'
                        } else {
                            c
                        }
                    }
                };
                v.push(c);
            }
            B(v)
        }
    }
}

pub fn gen_alphabet(ch: &mut Chooser) -> Alphabet {
    match ch.weighted(&[3, 3, 3, 2]) {
        0 => Alphabet::Small(2),
        1 => Alphabet::Small(3 + ch.below(2)),
        2 => Alphabet::Words,
        _ => Alphabet::Nasty,
    }
}
