//! The harness's own notion of unified-diff hunks: construction from an alignment,
//! rendering in the dialects diff(1)/git produce, and a textbook exact applier used to
//! self-check generated patches (it guards the oracle, not the code under test).

use crate::bytes::B;
use crate::choose::Chooser;
use serde::{Deserialize, Serialize};

/// One alignment step between old file A and new file B.
#[derive(Clone, Copy, Debug, PartialEq)]
pub enum Op {
    Keep,
    Del,
    Ins,
}

#[derive(Clone, Debug, PartialEq, Serialize, Deserialize)]
pub struct HLine {
    /// b' ', b'-' or b'+'
    pub tag: u8,
    /// line bytes including the terminator, if the file has one there
    pub text: B,
}

#[derive(Clone, Debug, PartialEq, Serialize, Deserialize)]
pub struct HHunk {
    /// as written in the header (diff(1) convention: for a zero count, the line after
    /// which the text goes)
    pub old_start: u64,
    pub new_start: u64,
    pub lines: Vec<HLine>,
    /// write "-N" instead of "-N,1" when the count is 1
    #[serde(default)]
    pub omit_count_one: bool,
    #[serde(default)]
    pub func: Option<B>,
    /// write an empty context line as a bare "\n" (mailers stripping trailing blanks)
    #[serde(default)]
    pub bare_empty_ctx: bool,
    /// use a localised "\ No newline at end of file" marker (only the backslash matters)
    #[serde(default)]
    pub localised_marker: bool,
}

impl HHunk {
    pub fn old_lines(&self) -> Vec<B> {
        self.lines.iter().filter(|l| l.tag != b'+').map(|l| l.text.clone()).collect()
    }
    pub fn new_lines(&self) -> Vec<B> {
        self.lines.iter().filter(|l| l.tag != b'-').map(|l| l.text.clone()).collect()
    }
    pub fn old_count(&self) -> usize {
        self.lines.iter().filter(|l| l.tag != b'+').count()
    }
    pub fn new_count(&self) -> usize {
        self.lines.iter().filter(|l| l.tag != b'-').count()
    }
    pub fn prefix_ctx(&self) -> usize {
        self.lines.iter().take_while(|l| l.tag == b' ').count()
    }
    pub fn suffix_ctx(&self) -> usize {
        if self.lines.iter().all(|l| l.tag == b' ') {
            return 0;
        }
        self.lines.iter().rev().take_while(|l| l.tag == b' ').count()
    }
    pub fn has_change(&self) -> bool {
        self.lines.iter().any(|l| l.tag != b' ')
    }
    /// swap the roles of old and new
    pub fn reversed(&self) -> HHunk {
        // within a change block, '-' lines must precede '+' lines after swapping; reorder
        let mut out: Vec<HLine> = Vec::with_capacity(self.lines.len());
        let mut i = 0;
        while i < self.lines.len() {
            if self.lines[i].tag == b' ' {
                out.push(self.lines[i].clone());
                i += 1;
            } else {
                let mut j = i;
                while j < self.lines.len() && self.lines[j].tag != b' ' {
                    j += 1;
                }
                for l in &self.lines[i..j] {
                    if l.tag == b'+' {
                        out.push(HLine { tag: b'-', text: l.text.clone() });
                    }
                }
                for l in &self.lines[i..j] {
                    if l.tag == b'-' {
                        out.push(HLine { tag: b'+', text: l.text.clone() });
                    }
                }
                i = j;
            }
        }
        HHunk {
            old_start: self.new_start,
            new_start: self.old_start,
            lines: out,
            omit_count_one: self.omit_count_one,
            func: self.func.clone(),
            bare_empty_ctx: self.bare_empty_ctx,
            localised_marker: self.localised_marker,
        }
    }

    pub fn render(&self, out: &mut Vec<u8>) {
        self.render_with_numbers(out, &self.old_start.to_string(), &self.new_start.to_string());
    }

    pub fn render_with_numbers(&self, out: &mut Vec<u8>, old_start: &str, new_start: &str) {
        let oc = self.old_count();
        let nc = self.new_count();
        out.extend_from_slice(b"@@ -");
        out.extend_from_slice(old_start.as_bytes());
        if !(self.omit_count_one && oc == 1) {
            out.extend_from_slice(format!(",{}", oc).as_bytes());
        }
        out.extend_from_slice(b" +");
        out.extend_from_slice(new_start.as_bytes());
        if !(self.omit_count_one && nc == 1) {
            out.extend_from_slice(format!(",{}", nc).as_bytes());
        }
        out.extend_from_slice(b" @@");
        if let Some(f) = &self.func {
            out.push(b' ');
            out.extend_from_slice(f);
        }
        out.push(b'\n');
        for l in &self.lines {
            if l.tag == b' ' && self.bare_empty_ctx && l.text.as_slice() == b"\n" {
                out.push(b'\n');
                continue;
            }
            out.push(l.tag);
            out.extend_from_slice(&l.text);
            if l.text.last() != Some(&b'\n') {
                if self.localised_marker {
                    out.extend_from_slice("\n\\ Kein Zeilenumbruch am Dateiende\n".as_bytes());
                } else {
                    out.extend_from_slice(b"\n\\ No newline at end of file\n");
                }
            }
        }
    }
}

/// Merge policy for neighbouring change regions.
#[derive(Clone, Copy, Debug, PartialEq, Serialize, Deserialize)]
pub enum Merge {
    /// like diff(1): regions whose gap is <= 2c share a hunk
    Gnu,
    /// keep separate when c <= gap < 2c: contexts overlap contexts only
    SplitOverlap,
    /// keep separate whenever gap >= 1 (a hunk's context may show the old version of a
    /// line the neighbouring hunk changes) - the K1 shape
    SplitTight,
}

/// Build unified hunks from an alignment of a (old) and b (new).
/// `ops` must consume exactly a.len() Keep/Del and b.len() Keep/Ins steps.
pub fn hunks_from_ops(a: &[B], b: &[B], ops: &[Op], c: usize, merge: Merge) -> Vec<HHunk> {
    // positions
    #[derive(Clone, Copy)]
    struct Step {
        op: Op,
        ai: usize, // index into a for Keep/Del (old line consumed), else insertion point
        bi: usize,
    }
    let mut steps = Vec::with_capacity(ops.len());
    let (mut ai, mut bi) = (0usize, 0usize);
    for &op in ops {
        steps.push(Step { op, ai, bi });
        match op {
            Op::Keep => {
                ai += 1;
                bi += 1;
            }
            Op::Del => ai += 1,
            Op::Ins => bi += 1,
        }
    }
    assert_eq!(ai, a.len());
    assert_eq!(bi, b.len());
    // change regions as step index ranges
    let mut regions: Vec<(usize, usize)> = Vec::new();
    let mut i = 0;
    while i < steps.len() {
        if steps[i].op != Op::Keep {
            let mut j = i;
            while j < steps.len() && steps[j].op != Op::Keep {
                j += 1;
            }
            regions.push((i, j));
            i = j;
        } else {
            i += 1;
        }
    }
    if regions.is_empty() {
        return vec![];
    }
    // group regions
    let mut groups: Vec<(usize, usize)> = Vec::new(); // region index ranges
    let mut gs = 0;
    for r in 1..regions.len() {
        let gap = regions[r].0 - regions[r - 1].1; // number of Keep steps between
        let split = match merge {
            Merge::Gnu => gap > 2 * c,
            Merge::SplitOverlap => gap > 2 * c || (gap >= c && gap >= 1),
            Merge::SplitTight => gap >= 1,
        };
        if split {
            groups.push((gs, r));
            gs = r;
        }
    }
    groups.push((gs, regions.len()));
    let mut hunks = Vec::new();
    for (g0, g1) in groups {
        let first = regions[g0].0;
        let last = regions[g1 - 1].1;
        // context before: up to c Keep steps immediately before `first`... in tight mode the
        // steps before may be non-Keep (a neighbouring region): then the context shows the OLD
        // lines (a-side) of those steps; inserted lines do not exist in a and are skipped.
        let mut lines: Vec<HLine> = Vec::new();
        // collect prefix context from the old file: the c old lines before a-index of `first`
        let a_first = steps[first].ai;
        let b_first = steps[first].bi;
        let pre = c.min(a_first);
        let mut tight = false;
        // is every one of these old lines a Keep step?
        {
            let mut k = first;
            let mut need = pre;
            while need > 0 && k > 0 {
                k -= 1;
                match steps[k].op {
                    Op::Keep => need -= 1,
                    Op::Del => {
                        tight = true;
                        need -= 1;
                    }
                    Op::Ins => tight = true,
                }
            }
        }
        for k in (a_first - pre)..a_first {
            lines.push(HLine { tag: b' ', text: a[k].clone() });
        }
        for st in &steps[first..last] {
            match st.op {
                Op::Keep => lines.push(HLine { tag: b' ', text: a[st.ai].clone() }),
                Op::Del => lines.push(HLine { tag: b'-', text: a[st.ai].clone() }),
                Op::Ins => lines.push(HLine { tag: b'+', text: b[st.bi].clone() }),
            }
        }
        let a_last = if last < steps.len() { steps[last].ai } else { a.len() };
        let b_last = if last < steps.len() { steps[last].bi } else { b.len() };
        let post = c.min(a.len() - a_last);
        for k in a_last..a_last + post {
            lines.push(HLine { tag: b' ', text: a[k].clone() });
        }
        let old_cnt = lines.iter().filter(|l| l.tag != b'+').count();
        let new_cnt = lines.iter().filter(|l| l.tag != b'-').count();
        let old_first_idx = a_first - pre; // 0-based index of first old line of hunk
        // new-side first index: in non-tight mode b_first - pre
        let new_first_idx = if tight { (b_first as isize - pre as isize).max(0) as usize } else { b_first - pre };
        let _ = b_last;
        let old_start = if old_cnt == 0 { old_first_idx as u64 } else { old_first_idx as u64 + 1 };
        let new_start = if new_cnt == 0 { new_first_idx as u64 } else { new_first_idx as u64 + 1 };
        hunks.push(HHunk { old_start, new_start, lines, omit_count_one: false, func: None, bare_empty_ctx: false, localised_marker: false });
    }
    hunks
}

/// Textbook exact application: every hunk must sit exactly at its stated old line in
/// the ORIGINAL file; only changed lines are replaced (context is never re-emitted).
/// Returns None when a hunk does not sit there.
pub fn apply_exact(a: &[B], hunks: &[HHunk]) -> Option<Vec<B>> {
    let mut out: Vec<B> = Vec::new();
    let mut cur = 0usize; // next old index to copy
    for h in hunks {
        let oc = h.old_count();
        let start = if oc == 0 { h.old_start as usize } else { (h.old_start as usize).checked_sub(1)? };
        let old = h.old_lines();
        if start + oc > a.len() {
            return None;
        }
        if a[start..start + oc] != old[..] {
            return None;
        }
        // walk the hunk: context advances, '-' drops, '+' emits
        let mut ai = start;
        for l in &h.lines {
            match l.tag {
                b' ' => {
                    ai += 1;
                }
                b'-' => {
                    if ai < cur {
                        return None;
                    }
                    out.extend_from_slice(&a[cur..ai]);
                    ai += 1;
                    cur = ai;
                }
                b'+' => {
                    if ai < cur {
                        return None;
                    }
                    out.extend_from_slice(&a[cur..ai]);
                    cur = ai;
                    out.push(l.text.clone());
                }
                _ => return None,
            }
        }
    }
    out.extend_from_slice(&a[cur..]);
    Some(out)
}

/// Longest-common-subsequence alignment (Keep as much as possible).
pub fn lcs_ops(a: &[B], b: &[B]) -> Vec<Op> {
    let n = a.len();
    let m = b.len();
    let mut dp = vec![vec![0u32; m + 1]; n + 1];
    for i in (0..n).rev() {
        for j in (0..m).rev() {
            dp[i][j] = if a[i] == b[j] { dp[i + 1][j + 1] + 1 } else { dp[i + 1][j].max(dp[i][j + 1]) };
        }
    }
    let mut ops = Vec::new();
    let (mut i, mut j) = (0, 0);
    while i < n || j < m {
        if i < n && j < m && a[i] == b[j] {
            ops.push(Op::Keep);
            i += 1;
            j += 1;
        } else if i < n && (j == m || dp[i + 1][j] >= dp[i][j + 1]) {
            ops.push(Op::Del);
            i += 1;
        } else {
            ops.push(Op::Ins);
            j += 1;
        }
    }
    ops
}

/// Derive B from A by a random edit script; returns (b, ops). Lines carry "\n" except
/// possibly the last line of each file.
pub fn random_edit(ch: &mut Chooser, a: &[B], mut newline: impl FnMut(&mut Chooser) -> B, density: u32) -> (Vec<B>, Vec<Op>) {
    let mut b: Vec<B> = Vec::new();
    let mut ops = Vec::new();
    let mut i = 0;
    // density: per-position chance (out of 16) to start an edit
    loop {
        if ch.chance(density, 16) {
            // an edit block: delete d lines, insert k lines
            let kind = ch.below(3);
            let d = if kind == 1 { 0 } else { 1 + ch.below(3) };
            let k = if kind == 0 { 0 } else { 1 + ch.below(3) };
            let d = d.min(a.len() - i);
            for _ in 0..d {
                ops.push(Op::Del);
                i += 1;
            }
            for _ in 0..k {
                ops.push(Op::Ins);
                let mut l = newline(ch);
                l.0.push(b'\n');
                b.push(l);
            }
        }
        if i >= a.len() {
            break;
        }
        ops.push(Op::Keep);
        b.push(a[i].clone());
        i += 1;
    }
    (b, ops)
}

/// Make a line vector well-formed: every line but the last ends in "\n".
pub fn normalise_terminators(lines: &mut Vec<B>, last_has_newline: bool) {
    let n = lines.len();
    for (i, l) in lines.iter_mut().enumerate() {
        let has = l.0.last() == Some(&b'\n');
        if i + 1 < n {
            if !has {
                l.0.push(b'\n');
            }
        } else if last_has_newline && !has {
            l.0.push(b'\n');
        } else if !last_has_newline && has {
            l.0.pop();
        }
    }
}
