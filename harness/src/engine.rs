//! Sharded, seeded property runner on top of proptest's TestRunner, with counting,
//! known-findings handling, replay files and evidence output.

use crate::bytes::fnv;
use crate::choose::Chooser;
use proptest::collection::vec;
use proptest::prelude::*;
use proptest::test_runner::{Config, RngAlgorithm, TestCaseError, TestError, TestRng, TestRunner};
use serde::de::DeserializeOwned;
use serde::{Deserialize, Serialize};
use serde_json::{json, Value};
use std::cell::RefCell;
use std::collections::{BTreeMap, BTreeSet};
use std::fmt::Debug;
use std::path::{Path, PathBuf};
use std::sync::atomic::{AtomicU64, Ordering};
use std::time::Instant;

pub const VERIF: &str = "/verif";
pub const SHARDS: usize = 16;

#[derive(Clone, Copy, Debug, PartialEq, Eq)]
pub enum Tier {
    Quick,
    Thorough,
}

impl Tier {
    pub fn name(self) -> &'static str {
        match self {
            Tier::Quick => "quick",
            Tier::Thorough => "thorough",
        }
    }
    pub fn pick<T>(self, q: T, t: T) -> T {
        match self {
            Tier::Quick => q,
            Tier::Thorough => t,
        }
    }
}

#[derive(Clone, Debug)]
pub struct KnownEntry {
    pub open: bool,
    pub property: String,
    pub id: String,
    pub text: String,
}

#[derive(Clone, Debug, Default)]
pub struct Known {
    pub entries: Vec<KnownEntry>,
}

impl Known {
    pub fn load() -> Known {
        let mut k = Known::default();
        let p = Path::new(VERIF).join("KNOWN_FINDINGS.txt");
        if let Ok(s) = std::fs::read_to_string(p) {
            for line in s.lines() {
                let line = line.trim();
                if line.is_empty() || line.starts_with('#') {
                    continue;
                }
                let (open, rest) = if let Some(r) = line.strip_prefix("open:") {
                    (true, r)
                } else if let Some(r) = line.strip_prefix("fixed:") {
                    (false, r)
                } else {
                    continue;
                };
                let mut property = String::new();
                let mut id = String::new();
                for tok in rest.split_whitespace() {
                    if let Some(v) = tok.strip_prefix("property=") {
                        property = v.to_string();
                    } else if let Some(v) = tok.strip_prefix("id=") {
                        id = v.to_string();
                    }
                }
                let text = rest.split("::").nth(1).unwrap_or(rest).trim().to_string();
                k.entries.push(KnownEntry { open, property, id, text });
            }
        }
        k
    }
    /// is finding `id` listed as open (for any property)?
    pub fn is_open(&self, id: &str) -> bool {
        self.entries.iter().any(|e| e.open && e.id == id)
    }
    pub fn open_for(&self, prop: &str) -> Vec<&KnownEntry> {
        self.entries.iter().filter(|e| e.open && e.property == prop).collect()
    }
}

/// Process-wide environment of a run.
pub struct Env {
    pub tier: Tier,
    pub seed: u64,
    pub shard: usize,
    pub bin: PathBuf,
    pub scratch: PathBuf,
    pub known: Known,
    /// strict = replay mode: known-finding signatures are reported, not tolerated
    pub strict: bool,
    pub case_no: AtomicU64,
    /// file receiving the JSON of the case about to run in-process (crash isolation)
    pub cur_file: Option<std::fs::File>,
}

/// milliseconds (since process start) at which the current in-process case started; 0 = none
pub static INPROC_STARTED_MS: AtomicU64 = AtomicU64::new(0);
pub const EXIT_HANG: i32 = 87;

fn now_ms() -> u64 {
    static START: std::sync::OnceLock<Instant> = std::sync::OnceLock::new();
    START.get_or_init(Instant::now).elapsed().as_millis() as u64 + 1
}

/// Watchdog for code that runs inside the shard process: a case announced with note_case() that
/// is not finished (case_done()) after 20 s ends the process with EXIT_HANG.
pub fn start_inproc_watchdog() {
    std::thread::spawn(|| loop {
        std::thread::sleep(std::time::Duration::from_millis(500));
        let st = INPROC_STARTED_MS.load(Ordering::Relaxed);
        if st != 0 && now_ms().saturating_sub(st) > 20_000 {
            let fd = crate::alloc::NOTE_FD.load(Ordering::Relaxed);
            if fd >= 0 {
                let m = b"HANG: in-process case did not finish within 20 s\n";
                unsafe {
                    libc::write(fd as i32, m.as_ptr() as *const _, m.len());
                }
            }
            unsafe { libc::_exit(EXIT_HANG) }
        }
    });
}

impl Env {
    /// Record the case that is about to be executed in-process, so that the parent can
    /// report it if this process dies (abort, stack overflow, oversized allocation).
    pub fn note_case<C: Serialize>(&self, case: &C) {
        use std::os::unix::fs::FileExt;
        if let Some(f) = &self.cur_file {
            if let Ok(v) = serde_json::to_vec(case) {
                let _ = f.write_all_at(&v, 0);
                let _ = f.set_len(v.len() as u64);
            }
        }
        INPROC_STARTED_MS.store(now_ms(), Ordering::Relaxed);
    }
    /// the in-process part of the case announced with note_case() is over
    pub fn case_done(&self) {
        INPROC_STARTED_MS.store(0, Ordering::Relaxed);
    }
    pub fn fresh_dir(&self, tag: &str) -> PathBuf {
        let n = self.case_no.fetch_add(1, Ordering::Relaxed);
        let d = self.scratch.join(format!("{}{}", tag, n));
        let _ = std::fs::remove_dir_all(&d);
        std::fs::create_dir_all(&d).expect("scratch dir");
        d
    }
}

pub enum Verdict {
    Pass,
    Fail(String),
    /// a failure that is too expensive to shrink (e.g. each evaluation runs into a watchdog)
    FailNoShrink(String),
    Inconclusive(String),
}

/// Per-case accounting handed to build() and check().
pub struct CaseCtx<'e> {
    pub env: &'e Env,
    pub labels: BTreeSet<String>,
    pub nontrivial: bool,
    pub skips: BTreeMap<String, u64>,
    pub excluded: BTreeMap<String, u64>,
    /// extra executions performed by this case (subprocess runs, placements...)
    pub evals: u64,
    /// additional distinct non-trivial sub-items (e.g. faults) hashed by the check itself
    pub sub_hashes: Vec<u64>,
}

impl<'e> CaseCtx<'e> {
    pub fn new(env: &'e Env) -> Self {
        CaseCtx {
            env,
            labels: BTreeSet::new(),
            nontrivial: false,
            skips: BTreeMap::new(),
            excluded: BTreeMap::new(),
            evals: 0,
            sub_hashes: Vec::new(),
        }
    }
    pub fn label(&mut self, l: &str) {
        self.labels.insert(l.to_string());
    }
    pub fn label_if(&mut self, c: bool, l: &str) {
        if c {
            self.label(l);
        }
    }
    pub fn skip(&mut self, zone: &str) {
        *self.skips.entry(zone.to_string()).or_insert(0) += 1;
    }
    pub fn exclude(&mut self, flag: &str) {
        *self.excluded.entry(flag.to_string()).or_insert(0) += 1;
    }
    /// a generator feature flag is on unless an open known finding with that id exists
    pub fn feature(&mut self, kf_id: &str) -> bool {
        !self.env.known.is_open(kf_id)
    }
}

pub trait Prop: Sync {
    type Case: Serialize + DeserializeOwned + Debug + Clone;
    fn id(&self) -> &'static str;
    fn level(&self) -> &'static str {
        "exploration"
    }
    fn rule(&self) -> String;
    fn assumptions(&self) -> Vec<String>;
    /// (random cases per shard, length of the choice vector)
    fn budget(&self, tier: Tier) -> (u32, usize);
    fn build(&self, ch: &mut Chooser, cx: &mut CaseCtx) -> Self::Case;
    fn check(&self, case: &Self::Case, cx: &mut CaseCtx) -> Verdict;
    /// signature predicates of known findings: Some(id) when this failure is exactly that finding
    fn known_signature(&self, _case: &Self::Case, _msg: &str) -> Option<&'static str> {
        None
    }
    /// deterministic enumerated cases (partitioned over shards by the implementation)
    fn sweep(&self, _env: &Env, _sink: &mut dyn FnMut(Self::Case) -> bool) -> Option<SweepInfo> {
        None
    }
    fn max_shrink_iters(&self, tier: Tier) -> u32 {
        tier.pick(1500, 4000)
    }
    /// does the death of the process while running a case in-process violate this property?
    fn crash_is_violation(&self) -> bool {
        false
    }
}

#[derive(Serialize, Deserialize, Default, Debug, Clone)]
pub struct SweepInfo {
    pub description: String,
    pub exhaustive: bool,
}

#[derive(Serialize, Deserialize, Default, Debug)]
pub struct ShardResult {
    pub evals: u64,
    pub cases: u64,
    pub sweep_cases: u64,
    pub nontrivial_hashes: Vec<u64>,
    pub labels: BTreeMap<String, u64>,
    pub skips: BTreeMap<String, u64>,
    pub excluded: BTreeMap<String, u64>,
    pub known_hits: BTreeMap<String, u64>,
    pub known_reproduced: Vec<String>,
    pub samples: Vec<Value>,
    pub inconclusive: Vec<String>,
    pub violation: Option<ViolationRec>,
    pub sweep: Option<SweepInfo>,
    pub regress_replayed: u64,
}

#[derive(Serialize, Deserialize, Debug, Clone)]
pub struct ViolationRec {
    pub message: String,
    pub case: Value,
    pub source: String,
}

#[derive(Serialize, Deserialize, Debug, Clone)]
pub struct ReplayFile {
    pub property: String,
    pub message: String,
    pub case: Value,
    #[serde(default)]
    pub note: String,
}

struct Acc {
    res: ShardResult,
    seen: BTreeSet<u64>,
    stopped: bool,
    /// stop doing work: a violation was recorded directly, or too many inconclusive cases
    halted: bool,
}

const MAX_INCONCLUSIVE_PER_SHARD: usize = 3;

impl Acc {
    fn account(&mut self, cx: &CaseCtx, case_json: impl FnOnce() -> Value, hash: u64, max_samples: usize) {
        self.res.evals += 1 + cx.evals;
        for l in &cx.labels {
            *self.res.labels.entry(l.clone()).or_insert(0) += 1;
        }
        for (k, v) in &cx.skips {
            *self.res.skips.entry(k.clone()).or_insert(0) += v;
        }
        for (k, v) in &cx.excluded {
            *self.res.excluded.entry(k.clone()).or_insert(0) += v;
        }
        if cx.nontrivial {
            if cx.sub_hashes.is_empty() {
                self.seen.insert(hash);
            } else {
                for h in &cx.sub_hashes {
                    self.seen.insert(hash ^ h.rotate_left(17));
                }
            }
            if self.res.samples.len() < max_samples {
                self.res.samples.push(case_json());
            }
        }
    }
}

fn case_hash<C: Serialize>(c: &C) -> (u64, String) {
    let s = serde_json::to_string(c).unwrap_or_default();
    (fnv(s.as_bytes()), s)
}

/// Run one case with full accounting; returns Err(msg) for a genuine (non-known) failure.
fn run_case<P: Prop>(p: &P, env: &Env, case: &P::Case, cx: &mut CaseCtx, acc: &RefCell<Acc>, inconclusive_is_ok: bool) -> Result<(), String> {
    let verdict = p.check(case, cx);
    let mut a = acc.borrow_mut();
    let (h, s) = case_hash(case);
    let mk = || serde_json::from_str::<Value>(&s).unwrap_or(Value::Null);
    match verdict {
        Verdict::Pass => {
            if !a.stopped {
                a.account(cx, mk, h, 3);
            }
            Ok(())
        }
        Verdict::Inconclusive(m) => {
            if !a.stopped {
                a.account(cx, mk, h, 3);
                a.res.inconclusive.push(m);
                if a.res.inconclusive.len() >= MAX_INCONCLUSIVE_PER_SHARD {
                    a.halted = true;
                }
            }
            let _ = inconclusive_is_ok;
            Ok(())
        }
        Verdict::FailNoShrink(msg) => {
            if !a.stopped {
                a.account(cx, mk, h, 3);
                a.res.violation = Some(ViolationRec { message: msg, case: mk(), source: "random (not shrunk)".into() });
            }
            a.stopped = true;
            a.halted = true;
            Ok(())
        }
        Verdict::Fail(msg) => {
            if !env.strict {
                if let Some(kf) = p.known_signature(case, &msg) {
                    if env.known.is_open(kf) {
                        if !a.stopped {
                            a.account(cx, mk, h, 3);
                            *a.res.known_hits.entry(kf.to_string()).or_insert(0) += 1;
                        }
                        return Ok(());
                    }
                }
            }
            if !a.stopped {
                a.account(cx, mk, h, 3);
            }
            a.stopped = true;
            Err(msg)
        }
    }
}

pub fn shard_seed(seed: u64, prop: &str, shard: usize) -> [u8; 32] {
    let mut out = [0u8; 32];
    let mut h = fnv(format!("{}:{}:{}", seed, prop, shard).as_bytes());
    for i in 0..4 {
        h = h.wrapping_mul(0x9E3779B97F4A7C15).rotate_left(23) ^ (i as u64 + 1);
        out[i * 8..i * 8 + 8].copy_from_slice(&h.to_le_bytes());
    }
    out
}

pub fn run_shard<P: Prop>(p: &P, env: &Env) -> ShardResult {
    let acc = RefCell::new(Acc { res: ShardResult::default(), seen: BTreeSet::new(), stopped: false, halted: false });
    let finish = |acc: RefCell<Acc>| {
        let mut a = acc.into_inner();
        a.res.nontrivial_hashes = a.seen.iter().copied().collect();
        a.res
    };

    // 1. regression inputs of fixed findings and saved known inputs (shard 0 only)
    if env.shard == 0 {
        let strict_env = Env {
            tier: env.tier,
            seed: env.seed,
            shard: env.shard,
            bin: env.bin.clone(),
            scratch: env.scratch.clone(),
            known: env.known.clone(),
            strict: true,
            case_no: AtomicU64::new(1_000_000),
            cur_file: env.cur_file.as_ref().and_then(|f| f.try_clone().ok()),
        };
        for (dir, is_known) in [("replays/regress", false), ("replays/known", true)] {
            let d = Path::new(VERIF).join(dir);
            let mut files: Vec<PathBuf> = std::fs::read_dir(&d).map(|r| r.filter_map(|e| e.ok().map(|e| e.path())).collect()).unwrap_or_default();
            files.sort();
            for f in files {
                let Ok(txt) = std::fs::read_to_string(&f) else { continue };
                let Ok(rf) = serde_json::from_str::<ReplayFile>(&txt) else { continue };
                if rf.property != p.id() {
                    continue;
                }
                let Ok(case) = serde_json::from_value::<P::Case>(rf.case.clone()) else {
                    acc.borrow_mut().res.inconclusive.push(format!("replay file {} does not deserialise", f.display()));
                    continue;
                };
                let mut cx = CaseCtx::new(&strict_env);
                let v = p.check(&case, &mut cx);
                let mut a = acc.borrow_mut();
                a.res.evals += 1 + cx.evals;
                a.res.regress_replayed += 1;
                if is_known {
                    let stem = f.file_stem().and_then(|s| s.to_str()).unwrap_or("").to_string();
                    if let Verdict::Fail(msg) | Verdict::FailNoShrink(msg) = v {
                        let sig = p.known_signature(&case, &msg);
                        let open = env.known.is_open(&stem);
                        if open && sig == Some(stem.as_str()) {
                            a.res.known_reproduced.push(stem);
                        } else {
                            let why = if open { "fails with a different signature" } else { "is not listed as open but fails" };
                            a.res.violation = Some(ViolationRec { message: format!("saved input {} {}: {}", stem, why, msg), case: rf.case.clone(), source: f.display().to_string() });
                            a.stopped = true;
                            drop(a);
                            return finish(acc);
                        }
                    }
                } else if let Verdict::Fail(msg) | Verdict::FailNoShrink(msg) = v {
                    a.res.violation = Some(ViolationRec { message: format!("regression input fails again: {}", msg), case: rf.case.clone(), source: f.display().to_string() });
                    a.stopped = true;
                    drop(a);
                    return finish(acc);
                }
            }
        }
    }

    // 2. enumerated sweep
    {
        let mut failed: Option<(String, Value)> = None;
        let info = p.sweep(env, &mut |case: P::Case| {
            if acc.borrow().halted {
                return false;
            }
            let mut cx = CaseCtx::new(env);
            acc.borrow_mut().res.sweep_cases += 1;
            match run_case(p, env, &case, &mut cx, &acc, true) {
                Ok(()) => true,
                Err(msg) => {
                    failed = Some((msg, serde_json::to_value(&case).unwrap_or(Value::Null)));
                    false
                }
            }
        });
        acc.borrow_mut().res.sweep = info;
        if let Some((msg, case)) = failed {
            acc.borrow_mut().res.violation = Some(ViolationRec { message: msg, case, source: "sweep".into() });
            return finish(acc);
        }
        if acc.borrow().halted {
            return finish(acc);
        }
    }

    // 3. random search with shrinking
    let (cases, nchoices) = p.budget(env.tier);
    if cases > 0 {
        let config = Config {
            cases,
            failure_persistence: None,
            max_shrink_iters: p.max_shrink_iters(env.tier),
            max_global_rejects: 0,
            ..Config::default()
        };
        let rng = TestRng::from_seed(RngAlgorithm::ChaCha, &shard_seed(env.seed, p.id(), env.shard));
        let mut runner = TestRunner::new_with_rng(config, rng);
        // fixed-length choice vector; shrinking moves values toward 0 (= simplest choice)
        let strat = vec(any::<u32>(), nchoices..=nchoices);
        let result = runner.run(&strat, |choices| {
            if acc.borrow().halted {
                return Ok(());
            }
            let mut cx = CaseCtx::new(env);
            let mut ch = Chooser::new(&choices);
            let case = p.build(&mut ch, &mut cx);
            acc.borrow_mut().res.cases += if acc.borrow().stopped { 0 } else { 1 };
            match run_case(p, env, &case, &mut cx, &acc, true) {
                Ok(()) => Ok(()),
                Err(msg) => Err(TestCaseError::fail(msg)),
            }
        });
        match result {
            Ok(()) => {}
            Err(TestError::Fail(reason, choices)) => {
                let mut cx = CaseCtx::new(env);
                let mut ch = Chooser::new(&choices);
                let case = p.build(&mut ch, &mut cx);
                let msg = match p.check(&case, &mut cx) {
                    Verdict::Fail(m) | Verdict::FailNoShrink(m) => m,
                    _ => format!("(not reproduced on re-run; flaky?) {}", reason),
                };
                acc.borrow_mut().res.violation = Some(ViolationRec { message: msg, case: serde_json::to_value(&case).unwrap_or(Value::Null), source: "random".into() });
            }
            Err(TestError::Abort(r)) => {
                acc.borrow_mut().res.inconclusive.push(format!("proptest aborted: {}", r));
            }
        }
    }
    finish(acc)
}

pub fn replay_case<P: Prop>(p: &P, env: &Env, rf: &ReplayFile) -> i32 {
    let case: P::Case = match serde_json::from_value(rf.case.clone()) {
        Ok(c) => c,
        Err(e) => {
            eprintln!("cannot deserialise case: {}", e);
            return 2;
        }
    };
    let mut cx = CaseCtx::new(env);
    match p.check(&case, &mut cx) {
        Verdict::Pass => {
            println!("replay: property {} HOLDS on this input", p.id());
            0
        }
        Verdict::Inconclusive(m) => {
            println!("replay: inconclusive: {}", m);
            2
        }
        Verdict::Fail(msg) | Verdict::FailNoShrink(msg) => {
            println!("replay: property {} VIOLATED: {}", p.id(), msg);
            if let Some(kf) = p.known_signature(&case, &msg) {
                println!("replay: matches signature of finding {} (open: {})", kf, env.known.is_open(kf));
            }
            1
        }
    }
}

pub struct Merged {
    pub evidence: Value,
    pub violation: Option<ViolationRec>,
    pub inconclusive: Vec<String>,
    pub known_reproduced: Vec<String>,
}

pub fn merge<P: Prop>(p: &P, tier: Tier, seed: u64, results: Vec<ShardResult>, wall_s: f64, dead: Vec<String>) -> Merged {
    let mut evals = 0u64;
    let mut cases = 0u64;
    let mut sweep_cases = 0u64;
    let mut hashes: BTreeSet<u64> = BTreeSet::new();
    let mut labels: BTreeMap<String, u64> = BTreeMap::new();
    let mut skips: BTreeMap<String, u64> = BTreeMap::new();
    let mut excluded: BTreeMap<String, u64> = BTreeMap::new();
    let mut known_hits: BTreeMap<String, u64> = BTreeMap::new();
    let mut known_reproduced = Vec::new();
    let mut samples = Vec::new();
    let mut inconclusive = dead;
    let mut violation = None;
    let mut sweep: Option<SweepInfo> = None;
    let mut regress = 0;
    for r in results {
        evals += r.evals;
        cases += r.cases;
        sweep_cases += r.sweep_cases;
        hashes.extend(r.nontrivial_hashes);
        for (k, v) in r.labels {
            *labels.entry(k).or_insert(0) += v;
        }
        for (k, v) in r.skips {
            *skips.entry(k).or_insert(0) += v;
        }
        for (k, v) in r.excluded {
            *excluded.entry(k).or_insert(0) += v;
        }
        for (k, v) in r.known_hits {
            *known_hits.entry(k).or_insert(0) += v;
        }
        known_reproduced.extend(r.known_reproduced);
        if samples.len() < 4 {
            samples.extend(r.samples.into_iter().take(2));
        }
        inconclusive.extend(r.inconclusive);
        if violation.is_none() {
            violation = r.violation;
        }
        if sweep.is_none() {
            sweep = r.sweep;
        }
        regress += r.regress_replayed;
    }
    samples.truncate(4);
    let mut coverage = json!({
        "evaluations": evals,
        "distinct_nontrivial": hashes.len(),
        "rule": p.rule(),
        "samples": samples,
        "random_cases": cases,
        "sweep_cases": sweep_cases,
        "labels": labels,
        "lenient_skips": skips,
        "excluded_by_construction": excluded,
        "known_finding_hits": known_hits,
        "saved_inputs_replayed": regress,
        "shards": SHARDS,
        "inconclusive": inconclusive.len(),
    });
    if let Some(s) = &sweep {
        coverage["sweep"] = json!(s.description);
        if s.exhaustive {
            coverage["exhaustive"] = json!(true);
        }
    }
    let evidence = json!({
        "property_id": p.id(),
        "tier": tier.name(),
        "seed": seed,
        "level": p.level(),
        "coverage": coverage,
        "assumptions": p.assumptions(),
        "wall_s": (wall_s * 100.0).round() / 100.0,
        "violations": if violation.is_some() { 1 } else { 0 },
    });
    Merged { evidence, violation, inconclusive, known_reproduced }
}

pub fn now() -> Instant {
    Instant::now()
}
