//! Shared generators: files, A->B pairs, dialects, file patches by construction.

use crate::bytes::B;
use crate::choose::{gen_alphabet, gen_line, Alphabet, Chooser};
use crate::diff::*;
use crate::ptext::*;
use crate::ws::unesc;
use serde::{Deserialize, Serialize};

/// Generate file lines (with terminators; the last may lack one).
pub fn gen_file_lines(ch: &mut Chooser, alpha: Alphabet, max_lines: usize, allow_no_final_newline: bool) -> Vec<B> {
    let n = match ch.weighted(&[1, 6, 3]) {
        0 => 0,
        1 => ch.range(1, max_lines.min(12).max(1)),
        _ => ch.range(1, max_lines.max(1)),
    };
    let mut v: Vec<B> = (0..n)
        .map(|_| {
            let mut l = gen_line(ch, alpha);
            l.0.push(b'\n');
            l
        })
        .collect();
    if allow_no_final_newline && n > 0 && ch.chance(1, 5) {
        let last = v.last_mut().unwrap();
        last.0.pop();
        if last.0.is_empty() {
            // an empty line without newline is no line at all
            last.0.push(b'z');
        }
    }
    v
}

/// Derive B from A with a random edit script and return a valid alignment.
pub fn gen_edit(ch: &mut Chooser, a: &[B], alpha: Alphabet, allow_no_final_newline: bool) -> (Vec<B>, Vec<Op>) {
    let use_lcs = ch.chance(1, 4);
    let density = *ch.pick(&[1u32, 2, 2, 4, 8]);
    let (mut b, ops) = random_edit(ch, a, |c| gen_line(c, alpha), density);
    // terminators: interior lines must end in \n
    let last_nl = if b.is_empty() {
        true
    } else if allow_no_final_newline {
        // keep whatever the last line has, sometimes flip
        let has = b.last().unwrap().0.last() == Some(&b'\n');
        if ch.chance(1, 6) {
            !has
        } else {
            has
        }
    } else {
        true
    };
    normalise_terminators(&mut b, last_nl);
    if let Some(l) = b.last_mut() {
        if l.0.is_empty() {
            l.0.push(b'z');
        }
    }
    let ops = if use_lcs { lcs_ops(a, &b) } else { fix_ops(a, &b, &ops) };
    (b, ops)
}

/// Turn Keep steps whose two lines differ (terminator changes) into Del+Ins.
pub fn fix_ops(a: &[B], b: &[B], ops: &[Op]) -> Vec<Op> {
    let mut out = Vec::with_capacity(ops.len() + 2);
    let (mut i, mut j) = (0, 0);
    for &op in ops {
        match op {
            Op::Keep => {
                if a[i] == b[j] {
                    out.push(Op::Keep);
                } else {
                    out.push(Op::Del);
                    out.push(Op::Ins);
                }
                i += 1;
                j += 1;
            }
            Op::Del => {
                out.push(Op::Del);
                i += 1;
            }
            Op::Ins => {
                out.push(Op::Ins);
                j += 1;
            }
        }
    }
    // canonical order inside a change block: all Del before all Ins
    let mut canon = Vec::with_capacity(out.len());
    let mut k = 0;
    while k < out.len() {
        if out[k] == Op::Keep {
            canon.push(Op::Keep);
            k += 1;
        } else {
            let mut e = k;
            while e < out.len() && out[e] != Op::Keep {
                e += 1;
            }
            let d = out[k..e].iter().filter(|o| **o == Op::Del).count();
            let n = e - k - d;
            canon.extend(std::iter::repeat(Op::Del).take(d));
            canon.extend(std::iter::repeat(Op::Ins).take(n));
            k = e;
        }
    }
    canon
}

pub const DIR_NAMES: &[&str] = &["src", "lib", "doc", "include", "d", "kernel", "a..b"];
pub const FILE_NAMES: &[&str] = &["f.c", "main.rs", "Makefile", "README", "t.txt", "x.h", "noext", "a.b.c", "conf.in", "z", "v1..v2.txt", "old...c"];
/// U+F7xx stands for the raw byte 0xxx (see ws::unesc): Latin-1 "café.txt", "dép", a lone continuation byte, 0xFF
pub const RAW_FILE_NAMES: &[&str] = &["caf\u{f7e9}.txt", "stra\u{f7df}e.h", "x\u{f780}y.c", "\u{f7ff}lead", "uml\u{f7e4}\u{f7fc}.c"];
pub const RAW_DIR_NAMES: &[&str] = &["d\u{f7e9}p", "\u{f7c0}dir"];
pub const NASTY_NAMES: &[&str] = &["w s.txt", "tab\there", "uml\u{e4}ut.c", "q\"uote", "back\\slash", "sp ace/f", "gar\u{e7}on.c", "stra\u{df}e.h", "bell\u{7}.txt", "trail\\"];

#[derive(Clone, Copy, Debug, PartialEq, Serialize, Deserialize)]
pub enum HeaderKind {
    Plain,
    Timestamps,
    IndexPreamble,
    Git,
}

#[derive(Clone, Copy, Debug, PartialEq, Serialize, Deserialize)]
pub enum Quote {
    None,
    C,
    Octal,
}

#[derive(Clone, Debug, PartialEq, Serialize, Deserialize)]
pub struct Dialect {
    pub header: HeaderKind,
    /// number of leading components to strip (-pN); names get N prefix components
    pub strip: usize,
    /// `--- f.orig` / `+++ f` (only the new name exists)
    pub orig_style: bool,
    pub quote: Quote,
    pub omit_count_one: bool,
    pub func: bool,
    pub bare_empty_ctx: bool,
    pub garbage: bool,
    /// use distinct old/new prefixes (a/ vs b/) or the same (x/ vs x/)
    pub same_prefix: bool,
    /// other spellings of the same path: 1 = a doubled slash, 2 = an interior "/./", 3 = a leading "./"
    /// (in place of the first component to strip, or in front of the name at -p0), 4 = absolute (the root
    /// directory in place of the first component to strip)
    pub spelling: u8,
    /// names whose only special character is the blank are written bare and followed by a TAB on the ---/+++
    /// lines (what git does, and GNU diff before it started quoting)
    pub bare_spaces: bool,
}

pub fn gen_dialect(ch: &mut Chooser, allow_git: bool) -> Dialect {
    let header = match ch.weighted(&[4, 2, 2, if allow_git { 4 } else { 0 }]) {
        0 => HeaderKind::Plain,
        1 => HeaderKind::Timestamps,
        2 => HeaderKind::IndexPreamble,
        _ => HeaderKind::Git,
    };
    let strip = if header == HeaderKind::Git { 1 } else { *ch.pick(&[1usize, 1, 1, 0, 2, 3]) };
    Dialect {
        header,
        strip,
        orig_style: header != HeaderKind::Git && ch.chance(1, 6),
        quote: match ch.weighted(&[6, 1, 1]) {
            0 => Quote::None,
            1 => Quote::C,
            _ => Quote::Octal,
        },
        omit_count_one: ch.chance(1, 2),
        func: ch.chance(1, 4),
        bare_empty_ctx: ch.chance(1, 5),
        garbage: ch.chance(1, 3),
        same_prefix: ch.chance(1, 4),
        spelling: if header != HeaderKind::Git && ch.chance(1, 5) { 1 + ch.below(4) as u8 } else { 0 },
        bare_spaces: ch.chance(1, 2),
    }
}

pub fn prefixes(d: &Dialect) -> (String, String) {
    let (a, b) = if d.same_prefix { ("x", "x") } else { ("a", "b") };
    let mut pa = String::new();
    let mut pb = String::new();
    for i in 0..d.strip {
        if i + 1 == d.strip {
            pa.push_str(a);
            pb.push_str(b);
        } else {
            pa.push_str("top");
            pb.push_str("top");
        }
        pa.push('/');
        pb.push('/');
    }
    (pa, pb)
}

/// is the blank the only character of the name that would need quoting?
pub fn only_blanks_special(name: &str) -> bool {
    name.contains(' ') && !name.bytes().any(|c| c == b'\t' || c == b'"' || c == b'\\' || c < 0x20 || c >= 0x7f)
}

pub fn render_name(d: &Dialect, prefix: &str, path: &str, force_quote: bool) -> Vec<u8> {
    render_name_opt(d, prefix, path, force_quote, false)
}

pub fn render_name_opt(d: &Dialect, prefix: &str, path: &str, force_quote: bool, bare: bool) -> Vec<u8> {
    let mut full = format!("{}{}", prefix, path);
    match d.spelling {
        1 => full = full.replacen('/', "//", 1),
        2 => full = full.replacen('/', "/./", 1),
        3 => {
            full = if d.strip == 0 { format!("./{}", full) } else { format!("./{}", &full[full.find('/').map_or(0, |i| i + 1)..]) };
        }
        // an absolute name: the root directory is the first component that -pN removes
        4 if d.strip >= 1 => {
            full = format!("/{}", &full[full.find('/').map_or(0, |i| i + 1)..]);
        }
        _ => {}
    }
    let full = unesc(&full);
    if bare {
        return full;
    }
    let must = needs_quote(&full);
    match d.quote {
        // diff writes bytes >= 0x80 as they are; only git quotes them
        Quote::None => {
            if full.iter().any(|&c| c < 0x80 && needs_quote(&[c])) {
                c_quote(&full)
            } else {
                full
            }
        }
        Quote::C => {
            if must || force_quote {
                c_quote(&full)
            } else {
                full
            }
        }
        Quote::Octal => {
            if must || force_quote {
                c_quote_octal(&full)
            } else {
                full
            }
        }
    }
}

const GARBAGE: &[&str] = &[
    "From: Some One <someone@example.com>\n",
    "Subject: [PATCH] change things\n",
    "\n",
    " some/file.c |   4 ++--\n",
    " 1 file changed, 2 insertions(+), 2 deletions(-)\n",
    "Signed-off-by: Nobody\n",
    "--\n",
    "2.20.1\n",
    "diff -urN old/x new/x\n",
    "Only in new: junk\n",
    "Binary files a/img.png and b/img.png differ\n",
];

pub fn gen_garbage(ch: &mut Chooser) -> Vec<B> {
    let n = ch.range(1, 4);
    (0..n).map(|_| B::new(GARBAGE[ch.below(GARBAGE.len())])).collect()
}

/// What a file patch does, in model terms.
#[derive(Clone, Debug, PartialEq, Serialize, Deserialize)]
pub struct FileChange {
    pub old_path: String,
    pub new_path: String,
    /// None = absent
    pub old: Option<Vec<B>>,
    pub new: Option<Vec<B>>,
    pub old_mode: Option<u32>,
    pub new_mode: Option<u32>,
    pub rename: bool,
}

/// Build the file patch text for a change; `ops` aligns old and new lines.
pub fn build_file_patch(ch: &mut Chooser, d: &Dialect, chg: &FileChange, ops: &[Op], c: usize, merge: Merge) -> FilePatchSpec {
    let empty: Vec<B> = vec![];
    let a = chg.old.as_ref().unwrap_or(&empty);
    let b = chg.new.as_ref().unwrap_or(&empty);
    let mut hunks = hunks_from_ops(a, b, ops, c, merge);
    for h in hunks.iter_mut() {
        h.omit_count_one = d.omit_count_one;
        h.bare_empty_ctx = d.bare_empty_ctx;
        if d.func && ch.chance(1, 2) {
            h.func = Some(B::new("int main(void)"));
        }
    }
    let (pa, pb) = prefixes(d);
    let force_q = d.quote != Quote::None && ch.chance(1, 2);
    // git style for names with blanks: bare, a TAB behind the name on the ---/+++ lines
    let bare = d.bare_spaces && d.quote == Quote::None && !hunks.is_empty() && (only_blanks_special(&chg.old_path) || only_blanks_special(&chg.new_path)) && !needs_quote(chg.old_path.replace(' ', "").as_bytes()) && !needs_quote(chg.new_path.replace(' ', "").as_bytes());
    let old_name: Vec<u8> = if chg.old.is_none() {
        b"/dev/null".to_vec()
    } else if d.orig_style && !chg.rename && chg.old_path == chg.new_path && chg.new.is_some() {
        render_name_opt(d, &pa, &format!("{}.orig", chg.old_path), force_q, bare)
    } else {
        render_name_opt(d, &pa, &chg.old_path, force_q, bare)
    };
    let new_name: Vec<u8> = if chg.new.is_none() { b"/dev/null".to_vec() } else { render_name_opt(d, &pb, &chg.new_path, force_q, bare) };
    let tab = |mut v: Vec<u8>| -> Vec<u8> {
        if bare {
            v.push(b'\t');
        }
        v
    };
    let mut fp = FilePatchSpec::default();
    if d.garbage {
        fp.garbage = gen_garbage(ch);
    }
    match d.header {
        HeaderKind::Plain => {
            fp.minus = Some(B(tab(old_name)));
            fp.plus = Some(B(tab(new_name)));
        }
        HeaderKind::Timestamps => {
            let mut m = old_name;
            m.extend_from_slice(format!("\t{}", if chg.old.is_none() { TS_EPOCH } else { TS_OLD }).as_bytes());
            let mut p = new_name;
            p.extend_from_slice(format!("\t{}", if chg.new.is_none() { TS_EPOCH } else { TS_NEW }).as_bytes());
            fp.minus = Some(B(m));
            fp.plus = Some(B(p));
        }
        HeaderKind::IndexPreamble => {
            fp.index_preamble = Some(B::new(&chg.new_path));
            fp.minus = Some(B(tab(old_name)));
            fp.plus = Some(B(tab(new_name)));
        }
        HeaderKind::Git => {
            // the diff --git line always carries real names
            let ga = render_name_opt(d, &pa, &chg.old_path, force_q, bare);
            let gb = render_name_opt(d, &pb, &chg.new_path, force_q, bare);
            fp.git = Some((B(ga), B(gb)));
            let om = chg.old_mode.unwrap_or(0o644) | 0o100000;
            let nm = chg.new_mode.unwrap_or(0o644) | 0o100000;
            if chg.old.is_none() {
                fp.git_meta.push(B(format!("new file mode {:06o}", nm).into_bytes()));
            } else if chg.new.is_none() {
                fp.git_meta.push(B(format!("deleted file mode {:06o}", om).into_bytes()));
            } else if chg.old_mode.is_some() && chg.new_mode.is_some() && chg.old_mode != chg.new_mode {
                fp.git_meta.push(B(format!("old mode {:06o}", om).into_bytes()));
                fp.git_meta.push(B(format!("new mode {:06o}", nm).into_bytes()));
            }
            if chg.rename {
                fp.git_meta.push(B::new("similarity index 90%"));
                fp.git_meta.push(B([b"rename from ".to_vec(), unesc(&chg.old_path)].concat()));
                fp.git_meta.push(B([b"rename to ".to_vec(), unesc(&chg.new_path)].concat()));
            }
            if !hunks.is_empty() {
                if ch.chance(3, 4) {
                    let same_mode = chg.old.is_some() && chg.new.is_some() && (chg.old_mode == chg.new_mode || chg.new_mode.is_none());
                    if same_mode && ch.chance(1, 2) {
                        fp.git_meta.push(B(format!("index 1a2b3c4..5d6e7f8 {:06o}", om).into_bytes()));
                    } else {
                        fp.git_meta.push(B::new("index 1a2b3c4..5d6e7f8"));
                    }
                }
                fp.minus = Some(B(tab(old_name)));
                fp.plus = Some(B(tab(new_name)));
            }
        }
    }
    fp.hunks = hunks;
    fp
}

/// Random relative path with `depth` directory levels.
pub fn gen_path(ch: &mut Chooser, nasty: bool) -> String {
    let depth = ch.weighted(&[3, 4, 2]);
    let mut p = String::new();
    for _ in 0..depth {
        p.push_str(DIR_NAMES[ch.below(DIR_NAMES.len())]);
        p.push('/');
    }
    if nasty && crate::ws::RAW_NAMES.load(std::sync::atomic::Ordering::Relaxed) && ch.chance(1, 4) {
        // names that are not UTF-8 (Latin-1 trees): in the file name, or in a directory component
        if ch.chance(1, 2) {
            p.push_str(RAW_DIR_NAMES[ch.below(RAW_DIR_NAMES.len())]);
            p.push('/');
            p.push_str(FILE_NAMES[ch.below(FILE_NAMES.len())]);
        } else {
            p.push_str(RAW_FILE_NAMES[ch.below(RAW_FILE_NAMES.len())]);
        }
    } else if nasty && ch.chance(1, 3) {
        p.push_str(NASTY_NAMES[ch.below(NASTY_NAMES.len())]);
    } else {
        p.push_str(FILE_NAMES[ch.below(FILE_NAMES.len())]);
    }
    p
}

pub fn gen_alpha(ch: &mut Chooser) -> Alphabet {
    gen_alphabet(ch)
}

pub const MODES: &[u32] = &[0o644, 0o755, 0o600, 0o664, 0o444, 0o644, 0o755, 0o1755, 0o1644];
