//! In-process access to libpatch through the same narrow API the repository's own tests use.

use crate::bytes::B;
use libpatch::analysis::{fn_analysis_note_noop, AnalysisSet};
use libpatch::modified_file::ModifiedFile;
use libpatch::patch::unified::parser::parse_patch;
use libpatch::patch::unified::writer::UnifiedPatchWriter;
use libpatch::patch::{FilePatchApplyReport, FilePatchKind, HunkApplyFailureReason, HunkApplyReport, PatchDirection, TextFilePatch, TextPatch};
use serde::{Deserialize, Serialize};
use std::os::unix::ffi::OsStrExt;
use std::os::unix::fs::PermissionsExt;
use std::panic::{catch_unwind, AssertUnwindSafe};

pub fn quiet_panics() {
    static ONCE: std::sync::Once = std::sync::Once::new();
    ONCE.call_once(|| {
        if std::env::var_os("RQV_SHOW_PANICS").is_none() {
            std::panic::set_hook(Box::new(|_| {}));
        }
    });
}

pub fn panic_msg(e: Box<dyn std::any::Any + Send>) -> String {
    if let Some(s) = e.downcast_ref::<&str>() {
        s.to_string()
    } else if let Some(s) = e.downcast_ref::<String>() {
        s.clone()
    } else {
        "non-string panic".to_string()
    }
}

#[derive(Clone, Debug, PartialEq, Eq, Serialize, Deserialize)]
pub enum Rep {
    Applied { line: i64, rollback_line: i64, offset: i64, lcd: i64, fuzz: usize },
    Failed(String),
    Skipped,
}

pub fn reps(r: &FilePatchApplyReport) -> Vec<Rep> {
    r.hunk_reports()
        .iter()
        .map(|h| match h {
            HunkApplyReport::Applied { line, rollback_line, offset, line_count_diff, fuzz } => {
                Rep::Applied { line: *line as i64, rollback_line: *rollback_line as i64, offset: *offset as i64, lcd: *line_count_diff as i64, fuzz: *fuzz }
            }
            HunkApplyReport::Failed(reason) => Rep::Failed(
                match reason {
                    HunkApplyFailureReason::NoMatchingLines => "NoMatchingLines",
                    HunkApplyFailureReason::FileDoesNotExist => "FileDoesNotExist",
                    HunkApplyFailureReason::CreatingFileThatExists => "CreatingFileThatExists",
                    HunkApplyFailureReason::DeletingFileThatDoesNotMatch => "DeletingFileThatDoesNotMatch",
                    HunkApplyFailureReason::MisorderedHunks => "MisorderedHunks",
                }
                .to_string(),
            ),
            HunkApplyReport::Skipped => Rep::Skipped,
        })
        .collect()
}

/// Observable state of a file as libpatch sees it.
#[derive(Clone, Debug, PartialEq, Eq, Serialize, Deserialize)]
pub struct FState {
    pub lines: Vec<B>,
    pub deleted: bool,
    pub perms: Option<u32>,
}

impl FState {
    pub fn of(m: &ModifiedFile) -> FState {
        FState { lines: m.content.iter().map(|l| B(l.to_vec())).collect(), deleted: m.deleted, perms: m.permissions.as_ref().map(|p| p.mode()) }
    }
    pub fn bytes(&self) -> Vec<u8> {
        crate::bytes::join_lines(&self.lines)
    }
}

pub fn dir(reverse: bool) -> PatchDirection {
    if reverse {
        PatchDirection::Revert
    } else {
        PatchDirection::Forward
    }
}

/// Parsed view of a hunk / file patch in harness-owned types (for structural comparison).
#[derive(Clone, Debug, PartialEq, Eq, Serialize, Deserialize)]
pub struct PHunk {
    pub old: Vec<B>,
    pub new: Vec<B>,
    pub old_line: i64,
    pub new_line: i64,
    pub prefix: usize,
    pub suffix: usize,
    pub func: B,
}

#[derive(Clone, Debug, PartialEq, Eq, Serialize, Deserialize)]
pub struct PFile {
    pub kind: String,
    pub old_name: Option<B>,
    pub new_name: Option<B>,
    pub rename: bool,
    pub old_mode: Option<u32>,
    pub new_mode: Option<u32>,
    pub old_hash: Option<B>,
    pub new_hash: Option<B>,
    pub hunks: Vec<PHunk>,
}

pub fn pfile(fp: &TextFilePatch) -> PFile {
    PFile {
        kind: match fp.kind() {
            FilePatchKind::Modify => "Modify",
            FilePatchKind::Create => "Create",
            FilePatchKind::Delete => "Delete",
        }
        .to_string(),
        old_name: fp.old_filename().map(|p| B(p.as_os_str().as_bytes().to_vec())),
        new_name: fp.new_filename().map(|p| B(p.as_os_str().as_bytes().to_vec())),
        rename: fp.is_rename(),
        old_mode: fp.old_permissions().map(|p| p.mode()),
        new_mode: fp.new_permissions().map(|p| p.mode()),
        old_hash: fp.old_hash().map(B::new),
        new_hash: fp.new_hash().map(B::new),
        hunks: fp
            .hunks()
            .iter()
            .map(|h| PHunk {
                old: h.remove.content.iter().map(B::new).collect(),
                new: h.add.content.iter().map(B::new).collect(),
                old_line: h.remove.target_line as i64,
                new_line: h.add.target_line as i64,
                prefix: h.prefix_context,
                suffix: h.suffix_context,
                func: B::new(h.function),
            })
            .collect(),
    }
}

pub enum Parsed {
    Ok(Vec<PFile>),
    Err(String),
    Panic(String),
}

pub fn parse_summary(text: &[u8], strip: usize) -> Parsed {
    quiet_panics();
    match catch_unwind(AssertUnwindSafe(|| parse_patch(text, strip, false).map(|p| p.file_patches.iter().map(pfile).collect::<Vec<_>>()).map_err(|e| e.to_string()))) {
        Ok(Ok(v)) => Parsed::Ok(v),
        Ok(Err(e)) => Parsed::Err(e),
        Err(e) => Parsed::Panic(panic_msg(e)),
    }
}

/// parse -> write; returns (summary, written bytes)
pub fn parse_and_write(text: &[u8]) -> Result<(Vec<PFile>, Vec<u8>), String> {
    quiet_panics();
    match catch_unwind(AssertUnwindSafe(|| -> Result<(Vec<PFile>, Vec<u8>), String> {
        let p: TextPatch = parse_patch(text, 0, true).map_err(|e| format!("parse error: {}", e))?;
        let mut out = Vec::new();
        p.write_to(&mut out).map_err(|e| format!("write error: {}", e))?;
        Ok((p.file_patches.iter().map(pfile).collect(), out))
    })) {
        Ok(r) => r,
        Err(e) => Err(format!("PANIC: {}", panic_msg(e))),
    }
}

/// One step of an in-process history on a single file.
#[derive(Clone, Debug, PartialEq, Eq, Serialize, Deserialize)]
pub struct Step {
    /// index into the list of patch texts; the first file patch of that text is used
    pub patch: usize,
    pub reverse: bool,
    pub fuzz: usize,
}

#[derive(Clone, Debug)]
pub struct StepOut {
    pub before: FState,
    pub after: FState,
    pub reps: Vec<Rep>,
    pub ok: bool,
}

#[derive(Clone, Debug)]
pub struct HistoryOut {
    pub steps: Vec<StepOut>,
    /// state after each rollback, LIFO (index 0 = after undoing the last step)
    pub rollbacks: Vec<Result<FState, String>>,
    /// summaries of the parsed file patches used
    pub parsed: Vec<PFile>,
}

/// Apply `steps` in order to the file, then (optionally) roll all of them back in reverse order.
/// Any panic is caught and reported in-band. Returns Err for harness-level problems
/// (patch does not parse / has no file patch) which callers treat as generator bugs.
pub fn run_history(file: Option<&[u8]>, perms: Option<u32>, texts: &[Vec<u8>], steps: &[Step], do_rollback: bool) -> Result<Result<HistoryOut, String>, String> {
    run_history_strip(file, perms, texts, steps, do_rollback, 0)
}

/// the same, the patch texts parsed with -p<strip> (names that are only acceptable after stripping)
pub fn run_history_strip(file: Option<&[u8]>, perms: Option<u32>, texts: &[Vec<u8>], steps: &[Step], do_rollback: bool, strip: usize) -> Result<Result<HistoryOut, String>, String> {
    quiet_panics();
    let mut parsed: Vec<TextPatch> = Vec::new();
    for t in texts {
        match catch_unwind(AssertUnwindSafe(|| parse_patch(t, strip, false))) {
            Ok(Ok(p)) => {
                if p.file_patches.is_empty() {
                    return Err("patch text has no file patch".into());
                }
                parsed.push(p)
            }
            Ok(Err(e)) => return Err(format!("patch text does not parse: {}", e)),
            Err(e) => return Ok(Err(format!("PANIC in parse: {}", panic_msg(e)))),
        }
    }
    let mut mf = match file {
        Some(b) => ModifiedFile::new(b, true, perms.map(std::fs::Permissions::from_mode)),
        None => ModifiedFile::new_non_existent(),
    };
    let summaries: Vec<PFile> = parsed.iter().map(|p| pfile(&p.file_patches[0])).collect();
    let mut outs = Vec::new();
    let mut reports: Vec<FilePatchApplyReport> = Vec::new();
    for st in steps {
        let fp = &parsed[st.patch].file_patches[0];
        let before = FState::of(&mf);
        let r = catch_unwind(AssertUnwindSafe(|| fp.apply(&mut mf, dir(st.reverse), st.fuzz, &AnalysisSet::default(), &fn_analysis_note_noop)));
        match r {
            Ok(rep) => {
                outs.push(StepOut { before, after: FState::of(&mf), reps: reps(&rep), ok: rep.ok() });
                reports.push(rep);
            }
            Err(e) => return Ok(Err(format!("PANIC in apply (step {}): {}", outs.len(), panic_msg(e)))),
        }
    }
    let mut rollbacks = Vec::new();
    if do_rollback {
        for (i, st) in steps.iter().enumerate().rev() {
            let fp = &parsed[st.patch].file_patches[0];
            let r = catch_unwind(AssertUnwindSafe(|| fp.rollback(&mut mf, dir(st.reverse), &reports[i])));
            match r {
                Ok(()) => rollbacks.push(Ok(FState::of(&mf))),
                Err(e) => {
                    rollbacks.push(Err(format!("PANIC in rollback of step {}: {}", i, panic_msg(e))));
                    break;
                }
            }
        }
    }
    Ok(Ok(HistoryOut { steps: outs, rollbacks, parsed: summaries }))
}

/// Apply every file patch of `text` to a small fixed file in both directions at fuzz 0 and 2 and roll
/// it back again; only panics are reported (a failing application is fine).
pub fn apply_smoke(text: &[u8]) -> Result<(), String> {
    quiet_panics();
    let file: &[u8] = b"a\nb\nc\nd\ne\n";
    let r = catch_unwind(AssertUnwindSafe(|| {
        let Ok(p) = parse_patch(text, 0, false) else { return };
        for fp in &p.file_patches {
            for (reverse, fuzz) in [(false, 0usize), (true, 0), (false, 2)] {
                for existing in [true, false] {
                    let mut mf = if existing { ModifiedFile::new(file, true, None) } else { ModifiedFile::new_non_existent() };
                    let rep = fp.apply(&mut mf, dir(reverse), fuzz, &AnalysisSet::default(), &fn_analysis_note_noop);
                    fp.rollback(&mut mf, dir(reverse), &rep);
                }
            }
        }
    }));
    match r {
        Ok(()) => Ok(()),
        Err(e) => Err(format!("applying (or rolling back) the parsed patch panicked: {}", panic_msg(e))),
    }
}
