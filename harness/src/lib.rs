//! The verification harness as a library (used by the `rqv` binary and by the cargo-fuzz targets).
pub mod alloc;
pub mod bytes;
pub mod choose;
pub mod diff;
pub mod engine;
pub mod gen;
pub mod inproc;
pub mod model;
pub mod props;
pub mod ptext;
pub mod push;
pub mod ws;
pub mod wsgen;

use std::sync::atomic::AtomicU64;

/// A process-wide environment for code that runs checks outside the sharded runner (fuzz targets).
pub fn fuzz_env() -> &'static engine::Env {
    static ENV: std::sync::OnceLock<engine::Env> = std::sync::OnceLock::new();
    ENV.get_or_init(|| {
        let scratch = std::path::PathBuf::from(format!("/dev/shm/rqv-fuzz-{}", std::process::id()));
        let _ = std::fs::create_dir_all(&scratch);
        engine::Env {
            tier: engine::Tier::Thorough,
            seed: 0,
            shard: 0,
            bin: std::path::PathBuf::from("/verif/target/repo/debug/rapidquilt"),
            scratch,
            known: engine::Known::load(),
            strict: false,
            case_no: AtomicU64::new(0),
            cur_file: None,
        }
    })
}

pub fn to_json<T: serde::Serialize>(t: &T) -> String {
    serde_json::to_string(t).unwrap_or_default()
}
