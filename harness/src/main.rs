
use rqv::engine::*;
use rqv::{alloc, bytes, engine, props, ws};
use std::path::{Path, PathBuf};
use std::sync::atomic::AtomicU64;

#[global_allocator]
static GLOBAL: alloc::Counting = alloc::Counting;

macro_rules! dispatch {
    ($id:expr, $f:ident, $($arg:expr),*) => {
        match $id {
            "C01" => $f(&props::c01::C01, $($arg),*),
            "C02" => $f(&props::place::C02, $($arg),*),
            "C03" => $f(&props::place::C03, $($arg),*),
            "C04" => $f(&props::c04::C04, $($arg),*),
            "C05" => $f(&props::cli::C05, $($arg),*),
            "C12" => $f(&props::c12::C12, $($arg),*),
            "C13" => $f(&props::cli::C13, $($arg),*),
            "C16" => $f(&props::cli3::C16, $($arg),*),
            "C17" => $f(&props::cli3::C17, $($arg),*),
            "C18" => $f(&props::hooks::C18, $($arg),*),
            "C19" => $f(&props::cli3::C19, $($arg),*),
            "C20" => $f(&props::place::C20, $($arg),*),
            "C06" => $f(&props::hooks::C06, $($arg),*),
            "C07" => $f(&props::hooks::C07, $($arg),*),
            "C08" => $f(&props::cli2::C08, $($arg),*),
            "C09" => $f(&props::cli2::C09, $($arg),*),
            "C10" => $f(&props::cli2::C10, $($arg),*),
            "C11" => $f(&props::c11::C11, $($arg),*),
            "C14" => $f(&props::cli2::C14, $($arg),*),
            "C15" => $f(&props::cli2::C15, $($arg),*),
            other => {
                eprintln!("unknown property {}", other);
                std::process::exit(2);
            }
        }
    };
}

fn parse_tier(s: &str) -> Tier {
    match s {
        "quick" => Tier::Quick,
        "thorough" => Tier::Thorough,
        _ => {
            eprintln!("tier must be quick|thorough");
            std::process::exit(2);
        }
    }
}

fn bin_path() -> PathBuf {
    std::env::var_os("RQV_BIN").map(PathBuf::from).unwrap_or_else(|| PathBuf::from("/verif/target/repo/debug/rapidquilt"))
}

fn scratch_root() -> PathBuf {
    let base = if Path::new("/dev/shm").is_dir() { PathBuf::from("/dev/shm") } else { std::env::temp_dir() };
    base.join(format!("rqv-{}", std::process::id()))
}

fn mk_env(tier: Tier, seed: u64, shard: usize, strict: bool, out: Option<&str>) -> Env {
    let scratch = scratch_root();
    std::fs::create_dir_all(&scratch).expect("scratch root");
    let mut cur_file = None;
    if let Some(o) = out {
        cur_file = std::fs::File::create(format!("{}.cur", o)).ok();
        if let Ok(f) = std::fs::OpenOptions::new().create(true).append(true).open(format!("{}.note", o)) {
            use std::os::unix::io::IntoRawFd;
            alloc::NOTE_FD.store(f.into_raw_fd() as i64, std::sync::atomic::Ordering::Relaxed);
        }
    }
    Env { tier, seed, shard, bin: bin_path(), scratch, known: Known::load(), strict, case_no: AtomicU64::new(0), cur_file }
}

fn crash_is_violation<P: Prop>(p: &P) -> bool {
    p.crash_is_violation()
}

fn do_shard<P: Prop>(p: &P, env: &Env, out: &str) {
    // a panic inside the harness itself must not look like a pass
    let res = run_shard(p, env);
    std::fs::write(out, serde_json::to_vec(&res).unwrap()).expect("write shard result");
}

fn do_replay<P: Prop>(p: &P, env: &Env, rf: &ReplayFile) -> i32 {
    replay_case(p, env, rf)
}

fn do_merge<P: Prop>(p: &P, tier: Tier, seed: u64, results: Vec<ShardResult>, wall: f64, dead: Vec<String>) -> Merged {
    merge(p, tier, seed, results, wall, dead)
}

fn main() {
    let args: Vec<String> = std::env::args().collect();
    if args.len() < 2 {
        eprintln!("usage: rqv run <prop> <tier> | shard <prop> <tier> <seed> <i> <out> | replay <file>");
        std::process::exit(2);
    }
    match args[1].as_str() {
        "shard" => {
            let prop = args[2].as_str();
            let tier = parse_tier(&args[3]);
            let seed: u64 = args[4].parse().unwrap();
            let shard: usize = args[5].parse().unwrap();
            let env = mk_env(tier, seed, shard, false, Some(&args[6]));
            // names that are not UTF-8: in the properties that compare trees, rejects and metadata; not where the
            // instrumentation hooks address files by name (C06, C07, C18)
            if ["C01", "C05", "C08", "C09", "C10", "C13", "C14", "C15", "C16"].contains(&prop) {
                ws::RAW_NAMES.store(true, std::sync::atomic::Ordering::Relaxed);
            }
            if ["C10", "C14"].contains(&prop) {
                rqv::wsgen::TIGHT_SPLIT.store(true, std::sync::atomic::Ordering::Relaxed);
            }
            engine::start_inproc_watchdog();
            dispatch!(prop, do_shard, &env, &args[6]);
            ws::rm_rf(&env.scratch);
        }
        "replay" => {
            // run in a child so that aborts / oversized allocations are observed, not suffered
            let txt = std::fs::read_to_string(&args[2]).expect("read replay file");
            let rf: ReplayFile = serde_json::from_str(&txt).expect("parse replay file");
            let exe = std::env::current_exe().expect("exe");
            let st = std::process::Command::new(exe).args(["replay-child", &args[2]]).status().expect("spawn replay child");
            use std::os::unix::process::ExitStatusExt;
            let code = match (st.code(), st.signal()) {
                (Some(c), _) if c == alloc::EXIT_OVERSIZE => {
                    println!("replay: property {} VIOLATED: allocation out of proportion to the input", rf.property);
                    1
                }
                (Some(c), _) if c == engine::EXIT_HANG => {
                    println!("replay: property {} VIOLATED: did not finish within 20 s in-process", rf.property);
                    1
                }
                (Some(c), _) => c,
                (None, sig) => {
                    println!("replay: property {} VIOLATED: process died with signal {:?}", rf.property, sig);
                    1
                }
            };
            std::process::exit(code);
        }
        "replay-child" => {
            let txt = std::fs::read_to_string(&args[2]).expect("read replay file");
            let rf: ReplayFile = serde_json::from_str(&txt).expect("parse replay file");
            let env = mk_env(Tier::Quick, 0, 0, true, None);
            engine::start_inproc_watchdog();
            let prop = rf.property.clone();
            let code = dispatch!(prop.as_str(), do_replay, &env, &rf);
            ws::rm_rf(&env.scratch);
            std::process::exit(code);
        }
        "artifact" => {
            // artifact <prop> <target> <file>: turn a libFuzzer artifact into a replay file
            let (prop, target, file) = (args[2].as_str(), args[3].as_str(), args[4].as_str());
            let data = std::fs::read(file).expect("read artifact");
            let case: serde_json::Value = match target {
                "parse" => serde_json::json!({"mode": "Parse", "data": rqv::bytes::esc(&data), "origin": "libfuzzer", "threads": 1, "verbosity": ""}),
                "roundtrip" => serde_json::json!({"data": rqv::bytes::esc(&data), "origin": "libfuzzer"}),
                _ => {
                    let choices: Vec<u32> = data.chunks(4).map(|c| { let mut b = [0u8; 4]; b[..c.len()].copy_from_slice(c); u32::from_le_bytes(b) }).collect();
                    let mut ch = rqv::choose::Chooser::new(&choices);
                    let c = props::place::gen_place_case(&mut ch, &props::place::GenOpts { max_file: 16, max_hunks: 4, max_fuzz: 3 });
                    if prop == "C04" {
                        // C04's case type is a history: one step with this patch
                        serde_json::json!({"start": c.file, "start_mode": 33188, "patches": [rqv::bytes::esc(&c.patch_text())], "steps": [{"patch": 0, "reverse": c.reverse, "fuzz": c.fuzz}], "kinds": ["modify"]})
                    } else {
                        serde_json::to_value(&c).unwrap()
                    }
                }
            };
            let rf = ReplayFile { property: prop.to_string(), message: format!("found by the libFuzzer target '{}'", target), case, note: format!("artifact {}", file) };
            let body = serde_json::to_vec_pretty(&rf).unwrap();
            let path = format!("/verif/replays/{}-fuzz-{:016x}.json", prop, bytes::fnv(&body));
            std::fs::write(&path, body).expect("write replay");
            println!("{}", path);
        }
        "dump-parse" => {
            // dump-parse <replay file of C11/C12>: show what the parser makes of the input and of its written form
            let txt = std::fs::read_to_string(&args[2]).expect("read");
            let rf: ReplayFile = serde_json::from_str(&txt).expect("parse");
            let data = rqv::bytes::unesc(rf.case["data"].as_str().unwrap_or("")).expect("unescape");
            match rqv::inproc::parse_and_write(&data) {
                Ok((p1, w1)) => {
                    println!("p1 = {:#?}", p1);
                    println!("w1 = {}", rqv::bytes::esc(&w1));
                    match rqv::inproc::parse_and_write(&w1) {
                        Ok((p2, w2)) => {
                            println!("p2 = {:#?}", p2);
                            println!("w2 == w1: {}", w2 == w1);
                        }
                        Err(e) => println!("second parse: {}", e),
                    }
                }
                Err(e) => println!("first parse: {}", e),
            }
        }
        "run" => {
            let prop = args[2].clone();
            let tier = parse_tier(&args[3]);
            let seed: u64 = std::env::var("VERIF_SEED").ok().and_then(|s| s.parse::<i64>().ok()).map(|v| v as u64).unwrap_or(0);
            let code = run_parent(&prop, tier, seed);
            std::process::exit(code);
        }
        _ => {
            eprintln!("unknown subcommand");
            std::process::exit(2);
        }
    }
}

fn run_parent(prop: &str, tier: Tier, seed: u64) -> i32 {
    let t0 = std::time::Instant::now();
    let exe = std::env::current_exe().expect("current exe");
    let tmp = scratch_root();
    std::fs::create_dir_all(&tmp).expect("scratch");
    let nshards: usize = std::env::var("RQV_SHARDS").ok().and_then(|s| s.parse().ok()).unwrap_or(SHARDS);
    let mut children = Vec::new();
    for i in 0..nshards {
        let out = tmp.join(format!("shard-{}.json", i));
        let child = std::process::Command::new(&exe)
            .args(["shard", prop, tier.name(), &seed.to_string(), &i.to_string(), out.to_str().unwrap()])
            .spawn()
            .expect("spawn shard");
        children.push((i, child, out));
    }
    let mut results = Vec::new();
    let mut dead = Vec::new();
    let crash_viol = dispatch!(prop, crash_is_violation,);
    for (i, mut child, out) in children {
        let st = child.wait().expect("wait shard");
        match std::fs::read(&out).ok().and_then(|b| serde_json::from_slice::<ShardResult>(&b).ok()) {
            Some(r) if st.success() => results.push(r),
            Some(r) => {
                dead.push(format!("shard {} exited with {:?} after writing a result", i, st));
                results.push(r);
            }
            None => {
                let cur = std::fs::read(format!("{}.cur", out.display())).ok().and_then(|b| serde_json::from_slice::<serde_json::Value>(&b).ok());
                let note = std::fs::read_to_string(format!("{}.note", out.display())).unwrap_or_default();
                match (crash_viol, cur) {
                    (true, Some(case)) => {
                        let mut r = ShardResult::default();
                        r.violation = Some(ViolationRec { message: format!("process died while handling this input in-process: {:?} {}", st, note.trim()), case, source: "crash-isolation".into() });
                        results.push(r);
                    }
                    _ => dead.push(format!("shard {} died without a result: {:?} {}", i, st, note.trim())),
                }
            }
        }
    }
    ws::rm_rf(&tmp);
    let wall = t0.elapsed().as_secs_f64();
    let merged = dispatch!(prop, do_merge, tier, seed, results, wall, dead);
    let ev_dir = Path::new(VERIF).join("evidence");
    let _ = std::fs::create_dir_all(&ev_dir);
    let ev_path = ev_dir.join(format!("{}.json", prop));
    std::fs::write(&ev_path, serde_json::to_vec_pretty(&merged.evidence).unwrap()).expect("write evidence");
    let known = Known::load();
    for kf in known.open_for(prop) {
        if merged.known_reproduced.iter().any(|k| k == &kf.id) {
            println!("KNOWN-FINDING: property={} {} {}", prop, kf.id, kf.text);
        }
    }
    let cov = &merged.evidence["coverage"];
    println!(
        "{} {} seed={} evaluations={} distinct_nontrivial={} random_cases={} sweep_cases={} wall={:.1}s",
        prop, tier.name(), seed, cov["evaluations"], cov["distinct_nontrivial"], cov["random_cases"], cov["sweep_cases"], wall
    );
    if let Some(v) = merged.violation {
        let rf = ReplayFile { property: prop.to_string(), message: v.message.clone(), case: v.case, note: format!("found by {} tier, seed {}, source {}", tier.name(), seed, v.source) };
        let body = serde_json::to_vec_pretty(&rf).unwrap();
        let h = bytes::fnv(&body);
        let dir = Path::new(VERIF).join("replays");
        let _ = std::fs::create_dir_all(&dir);
        let path = dir.join(format!("{}-{:016x}.json", prop, h));
        std::fs::write(&path, body).expect("write replay");
        println!("violation detail: {}", v.message);
        println!("VIOLATION property={} replay={}", prop, path.display());
        return 1;
    }
    if !merged.inconclusive.is_empty() {
        for m in merged.inconclusive.iter().take(5) {
            println!("INCONCLUSIVE: {}", m);
        }
        return 2;
    }
    0
}
