//! Reference model of hunk placement, written from the patch(1) rules the code quotes
//! (not from try_apply_hunk), plus reconstruction of the patched file from reports.

use crate::bytes::B;
use crate::diff::HHunk;

/// A hunk in APPLY orientation: `old` must be found in the file, `new` replaces it.
#[derive(Clone, Debug)]
pub struct MHunk {
    pub old: Vec<B>,
    pub new: Vec<B>,
    pub p: usize,
    pub s: usize,
    /// zero-based stated position of the old side / new side
    pub old_pos: i64,
    pub new_pos: i64,
}

pub fn zero_based(start: u64, count: usize) -> i64 {
    if count == 0 {
        start as i64
    } else {
        (start as i64 - 1).max(0)
    }
}

impl MHunk {
    pub fn from_hhunk(h: &HHunk, reverse: bool) -> MHunk {
        let (old, new, os, ns) = if reverse { (h.new_lines(), h.old_lines(), h.new_start, h.old_start) } else { (h.old_lines(), h.new_lines(), h.old_start, h.new_start) };
        let old_pos = zero_based(os, old.len());
        let new_pos = zero_based(ns, new.len());
        MHunk { p: h.prefix_ctx(), s: h.suffix_ctx(), old, new, old_pos, new_pos }
    }
    pub fn max_fuzz(&self) -> usize {
        self.p.max(self.s)
    }
    /// (prefix trimmed, suffix trimmed) at fuzz level f
    pub fn trims(&self, f: usize) -> (usize, usize) {
        let remaining = self.p.max(self.s).saturating_sub(f);
        (self.p.saturating_sub(remaining), self.s.saturating_sub(remaining))
    }
    pub fn view(&self, f: usize) -> View {
        let (pt, st) = self.trims(f);
        View { old: &self.old[pt..self.old.len() - st], new: &self.new[pt..self.new.len() - st], p: self.p - pt, s: self.s - st, pt, st }
    }
}

pub struct View<'a> {
    pub old: &'a [B],
    pub new: &'a [B],
    pub p: usize,
    pub s: usize,
    pub pt: usize,
    pub st: usize,
}

pub fn matches_at(file: &[B], needle: &[B], at: i64) -> bool {
    if at < 0 {
        return false;
    }
    let at = at as usize;
    at + needle.len() <= file.len() && file[at..at + needle.len()] == *needle
}

pub fn all_matches(file: &[B], needle: &[B]) -> Vec<i64> {
    if needle.len() > file.len() {
        return vec![];
    }
    (0..=(file.len() - needle.len()) as i64).filter(|&i| matches_at(file, needle, i)).collect()
}

/// nearest to `expected`, forward (>= expected) winning ties
pub fn nearest(cands: &[i64], expected: i64) -> Option<i64> {
    let mut best: Option<i64> = None;
    for &c in cands {
        best = Some(match best {
            None => c,
            Some(b) => {
                let (db, dc) = ((b - expected).abs(), (c - expected).abs());
                if dc < db || (dc == db && c > b) {
                    c
                } else {
                    b
                }
            }
        });
    }
    best
}

#[derive(Clone, Debug, PartialEq)]
pub enum MRep {
    Applied { line: i64, fuzz: usize },
    NoMatch,
    Misordered,
}

/// Strict reference placement (the reading that agrees with the implementation):
/// start-anchoring decided on the NEW side's first line, distance measured from the
/// untrimmed stated old line plus the last applied offset, nearest match first and
/// only then the misorder test; levels 0..=min(F,max) in increasing order, the first
/// level that applies wins; the report of the last level tried is kept otherwise.
pub fn place_all(file: &[B], hunks: &[MHunk], fuzz: usize) -> Vec<MRep> {
    let mut out = Vec::new();
    let mut last_offset = 0i64;
    let mut frozen = -1i64;
    for h in hunks {
        let mut rep = MRep::NoMatch;
        for f in 0..=fuzz.min(h.max_fuzz()) {
            let v = h.view(f);
            rep = place_one(file, h, &v, last_offset, frozen);
            if let MRep::Applied { line, .. } = rep {
                rep = MRep::Applied { line, fuzz: f };
                last_offset = line - h.old_pos;
                frozen = line + v.old.len() as i64 - v.s as i64;
                break;
            }
        }
        out.push(rep);
    }
    out
}

fn place_one(file: &[B], h: &MHunk, v: &View, last_offset: i64, frozen: i64) -> MRep {
    if v.old.len() > file.len() {
        return MRep::NoMatch;
    }
    let start_anch = v.p < v.s && h.new_pos == 0;
    let end_anch = !start_anch && v.p > v.s;
    let line = if start_anch {
        if matches_at(file, v.old, h.old_pos) {
            h.old_pos
        } else {
            return MRep::NoMatch;
        }
    } else if end_anch {
        let at = file.len() as i64 - v.old.len() as i64;
        if matches_at(file, v.old, at) {
            at
        } else {
            return MRep::NoMatch;
        }
    } else {
        match nearest(&all_matches(file, v.old), h.old_pos + last_offset) {
            Some(l) => l,
            None => return MRep::NoMatch,
        }
    };
    if line + v.p as i64 <= frozen {
        return MRep::Misordered;
    }
    MRep::Applied { line, fuzz: 0 }
}

/// Changed region (in original coordinates) of a hunk applied at `line` with fuzz f.
pub fn changed_region(h: &MHunk, line: i64, f: usize) -> (i64, i64) {
    let v = h.view(f);
    (line + v.p as i64, line + v.old.len() as i64 - v.s as i64)
}

/// Rebuild the expected file from the original and the (line, fuzz) of applied hunks:
/// only changed lines are replaced, context is never re-emitted.
/// Err when the regions are not increasing/disjoint.
pub fn reconstruct(file: &[B], hunks: &[MHunk], placements: &[Option<(i64, usize)>]) -> Result<Vec<B>, String> {
    let mut out = Vec::new();
    let mut cur = 0i64;
    for (i, (h, pl)) in hunks.iter().zip(placements).enumerate() {
        if let Some((line, f)) = pl {
            let v = h.view(*f);
            let (a, b) = changed_region(h, *line, *f);
            if a < cur {
                return Err(format!("changed region of hunk {} starts at {} before the end {} of an earlier applied hunk's changed region", i + 1, a, cur));
            }
            if b as usize > file.len() || a < 0 {
                return Err(format!("changed region of hunk {} [{},{}) outside the file", i + 1, a, b));
            }
            out.extend_from_slice(&file[cur as usize..a as usize]);
            out.extend_from_slice(&v.new[v.p..v.new.len() - v.s]);
            cur = b;
        }
    }
    out.extend_from_slice(&file[cur as usize..]);
    Ok(out)
}
