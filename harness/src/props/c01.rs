//! C01 - diff A->B pushed onto A gives exactly B; -R gives A back.

use crate::bytes::{esc, join_lines, B};
use crate::choose::Chooser;
use crate::diff::*;
use crate::engine::*;
use crate::gen::*;
use crate::inproc::{self, Rep, Step};
use crate::ptext::render_patch;
use crate::ws::{self, TFile, Tree, WsSpec};
use serde::{Deserialize, Serialize};

pub struct C01;

#[derive(Clone, Debug, Serialize, Deserialize)]
pub struct Case {
    pub path: String,
    /// None = absent; lines keep their terminators
    pub a: Option<Vec<B>>,
    pub b: Option<Vec<B>>,
    pub context: usize,
    pub strip: usize,
    pub patch: B,
    /// Some(threads) = run the real binary as well
    pub cli_threads: Option<usize>,
    /// features used (for labels / known-finding signatures)
    pub feat: Vec<String>,
}

/// the K2 shape: one hunk, no context, one side empty and located at line 0 ("-0,0" / "+0,0")
fn is_pure_single_ctx0(hunks: &[HHunk]) -> bool {
    hunks.len() == 1
        && hunks[0].prefix_ctx() == 0
        && hunks[0].suffix_ctx() == 0
        && ((hunks[0].old_count() == 0 && hunks[0].old_start == 0) || (hunks[0].new_count() == 0 && hunks[0].new_start == 0))
}

impl Prop for C01 {
    type Case = Case;
    fn id(&self) -> &'static str {
        "C01"
    }
    fn rule(&self) -> String {
        "file pair (A,B) from a random edit script or LCS alignment over 4 alphabets (2-letter, 3-4 letter, words, nasty bytes) incl. absent/empty/no-final-newline sides; context 0..4 (thorough ..8); merge policy Gnu|SplitOverlap; header dialect plain|timestamps|Index:|git, -p0..3, .orig names, C/octal quoted names, garbage; oracle by construction: in-process apply(A)=B with every hunk offset 0 fuzz 0 and revert(B)=A, and for CLI cases `push -a` on {A} leaves {B}, `-R` on {B} leaves {A}. non-trivial = patch has >=1 hunk and A != B; distinct = distinct serialised case".into()
    }
    fn assumptions(&self) -> Vec<String> {
        vec![
            "absent sides are written as /dev/null (the only spelling the tool recognises as absent); the pair {absent, empty} has no unified diff and is not generated".into(),
            "the generated patch is self-checked by the harness's own exact applier before it is used".into(),
            "a zero-length result is accepted either as an empty file or as no file only where diff cannot distinguish them: never (B empty => empty file expected, B absent => no file)".into(),
        ]
    }
    fn budget(&self, tier: Tier) -> (u32, usize) {
        (tier.pick(6000, 60000), 420)
    }
    fn build(&self, ch: &mut Chooser, cx: &mut CaseCtx) -> Case {
        let thorough = cx.env.tier == Tier::Thorough;
        let alpha = gen_alpha(ch);
        let max_lines = if thorough && ch.chance(1, 4) { 200 } else { 40 };
        let mut feat = vec![];
        let mut force_cli = false;
        // sides
        let side_kind = ch.weighted(&[12, 2, 2, 1, 1]);
        let (a, b, ops): (Option<Vec<B>>, Option<Vec<B>>, Vec<Op>) = match side_kind {
            1 => {
                // create from absent
                let mut b = gen_file_lines(ch, alpha, max_lines, true);
                if b.is_empty() {
                    b.push(B::new("x\n"));
                }
                let ops = vec![Op::Ins; b.len()];
                feat.push("a-absent".into());
                (None, Some(b), ops)
            }
            2 => {
                let mut a = gen_file_lines(ch, alpha, max_lines, true);
                if a.is_empty() {
                    a.push(B::new("x\n"));
                }
                let ops = vec![Op::Del; a.len()];
                feat.push("b-absent".into());
                (Some(a), None, ops)
            }
            3 => {
                let mut b = gen_file_lines(ch, alpha, max_lines, true);
                if b.is_empty() {
                    b.push(B::new("x\n"));
                }
                let ops = vec![Op::Ins; b.len()];
                feat.push("a-empty".into());
                (Some(vec![]), Some(b), ops)
            }
            4 => {
                let mut a = gen_file_lines(ch, alpha, max_lines, true);
                if a.is_empty() {
                    a.push(B::new("x\n"));
                }
                let ops = vec![Op::Del; a.len()];
                feat.push("b-empty".into());
                (Some(a), Some(vec![]), ops)
            }
            _ => {
                let mut a = gen_file_lines(ch, alpha, max_lines, true);
                // a line longer than any I/O buffer (>= 64 KiB) that is not the first line; always through the binary
                if a.len() >= 2 && ch.chance(1, 150) {
                    let i = ch.range(1, a.len() - 1);
                    let n = ch.range(65536, 70000);
                    let mut l: Vec<u8> = (0..n).map(|j| b'a' + (j % 23) as u8).collect();
                    l.push(b'\n');
                    a[i] = B(l);
                    feat.push("line>=64KiB".into());
                    force_cli = true;
                }
                let (b, ops) = gen_edit(ch, &a, alpha, true);
                (Some(a), Some(b), ops)
            }
        };
        let c = if thorough { *ch.pick(&[0usize, 1, 2, 3, 3, 3, 4, 5, 8]) } else { *ch.pick(&[0usize, 1, 2, 3, 3, 3, 4]) };
        let merge = if ch.chance(1, 3) { Merge::SplitOverlap } else { Merge::Gnu };
        let mut d = gen_dialect(ch, true);
        let path = gen_path(ch, true);
        if a.is_none() || b.is_none() {
            d.orig_style = false;
        }
        let chg = FileChange { old_path: path.clone(), new_path: path.clone(), old: a.clone(), new: b.clone(), old_mode: None, new_mode: None, rename: false };
        let mut fp = build_file_patch(ch, &d, &chg, &ops, c, merge);
        if ch.chance(1, 6) {
            for h in fp.hunks.iter_mut() {
                h.localised_marker = true;
            }
        }
        // known-finding steering
        if is_pure_single_ctx0(&fp.hunks) && a.as_ref().map_or(false, |x| !x.is_empty()) && b.as_ref().map_or(false, |x| !x.is_empty()) {
            if !cx.feature("KF-C01-ctx0-single-pure-hunk") {
                cx.exclude("KF-C01-ctx0-single-pure-hunk");
                // steer away: give the hunk one line of context by rebuilding with c=1
                fp = build_file_patch(ch, &d, &chg, &ops, 1, merge);
            }
        }
        let patch = render_patch(&[fp.clone()]);
        if c == 0 {
            feat.push("ctx0".into());
        }
        if fp.hunks.len() >= 3 {
            feat.push("hunks>=3".into());
        }
        if merge == Merge::SplitOverlap {
            feat.push("split-overlap".into());
        }
        feat.push(format!("hdr-{:?}", d.header));
        if d.strip != 1 {
            feat.push("strip!=1".into());
        }
        if d.orig_style {
            feat.push("orig-style".into());
        }
        if patch.windows(2).any(|w| w == b" \"" || w == b"\t\"") {
            feat.push("quoted-name".into());
        }
        if a.as_ref().and_then(|x| x.last()).map_or(false, |l| l.last() != Some(&b'\n')) || b.as_ref().and_then(|x| x.last()).map_or(false, |l| l.last() != Some(&b'\n')) {
            feat.push("no-final-newline".into());
        }
        if matches!(alpha, crate::choose::Alphabet::Nasty) {
            feat.push("nasty-bytes".into());
        }
        let cli_threads = if ch.chance(1, 13) || force_cli { Some(*ch.pick(&[1usize, 1, 2, 4])) } else { None };
        Case { path, a, b, context: c, strip: d.strip, patch: B(patch), cli_threads, feat }
    }

    fn check(&self, case: &Case, cx: &mut CaseCtx) -> Verdict {
        for f in &case.feat {
            cx.label(f);
        }
        let a_bytes = case.a.as_ref().map(|l| join_lines(l));
        let b_bytes = case.b.as_ref().map(|l| join_lines(l));
        // parse with strip
        let parsed = match inproc::parse_summary(&case.patch, case.strip) {
            inproc::Parsed::Ok(v) => v,
            inproc::Parsed::Err(e) => {
                if a_bytes == b_bytes {
                    return Verdict::Pass;
                }
                return Verdict::Fail(format!("generated patch rejected by parser: {}", e));
            }
            inproc::Parsed::Panic(e) => return Verdict::Fail(format!("parser panicked: {}", e)),
        };
        if a_bytes == b_bytes || parsed.is_empty() || parsed[0].hunks.is_empty() {
            // nothing to apply: trivial
            if a_bytes != b_bytes {
                return Verdict::Fail("patch for A != B parsed to no hunks".into());
            }
            return Verdict::Pass;
        }
        if parsed.len() != 1 {
            return Verdict::Fail(format!("expected one file patch, parser found {}", parsed.len()));
        }
        cx.nontrivial = true;
        // names after strip
        let pf = &parsed[0];
        for (nm, side) in [(&pf.old_name, "old"), (&pf.new_name, "new")] {
            if let Some(n) = nm {
                // names are paths: a doubled slash or a "." component spells the same path
                let s = crate::ws::name_str(n).split('/').filter(|c| !c.is_empty() && *c != ".").collect::<Vec<_>>().join("/");
                if s != case.path && s != format!("{}.orig", case.path) {
                    return Verdict::Fail(format!("{} name after -p{} is {:?}, expected {:?}", side, case.strip, s, case.path));
                }
            }
        }
        // strip applied inside parse_patch; the history runner parses with strip 0 - names are not used there
        let texts = vec![case.patch.0.clone()];
        // forward on A
        let fwd = match inproc::run_history_strip(a_bytes.as_deref(), None, &texts, &[Step { patch: 0, reverse: false, fuzz: 0 }], false, case.strip) {
            Ok(Ok(h)) => h,
            Ok(Err(p)) => return Verdict::Fail(format!("forward: {}", p)),
            Err(e) => return Verdict::Fail(format!("harness: {}", e)),
        };
        cx.evals += 1;
        let st = &fwd.steps[0];
        for (i, r) in st.reps.iter().enumerate() {
            match r {
                Rep::Applied { offset, fuzz, .. } if *offset == 0 && *fuzz == 0 => {}
                other => return Verdict::Fail(format!("forward: hunk {} of exact diff not applied cleanly at offset 0/fuzz 0: {:?}", i + 1, other)),
            }
        }
        let exp_b = case.b.clone().unwrap_or_default();
        if st.after.lines != exp_b {
            return Verdict::Fail(format!("forward: result differs from B: got {:?} expected {:?}", esc(&st.after.bytes()), esc(&join_lines(&exp_b))));
        }
        if st.after.deleted != case.b.is_none() {
            return Verdict::Fail(format!("forward: deleted flag {} but B {}", st.after.deleted, if case.b.is_none() { "absent" } else { "present" }));
        }
        // reverse on B
        let rev = match inproc::run_history_strip(b_bytes.as_deref(), None, &texts, &[Step { patch: 0, reverse: true, fuzz: 0 }], false, case.strip) {
            Ok(Ok(h)) => h,
            Ok(Err(p)) => return Verdict::Fail(format!("reverse: {}", p)),
            Err(e) => return Verdict::Fail(format!("harness: {}", e)),
        };
        cx.evals += 1;
        let st = &rev.steps[0];
        for (i, r) in st.reps.iter().enumerate() {
            match r {
                Rep::Applied { offset, fuzz, .. } if *offset == 0 && *fuzz == 0 => {}
                other => return Verdict::Fail(format!("reverse: hunk {} not applied cleanly at offset 0/fuzz 0: {:?}", i + 1, other)),
            }
        }
        let exp_a = case.a.clone().unwrap_or_default();
        if st.after.lines != exp_a {
            return Verdict::Fail(format!("reverse: result differs from A: got {:?} expected {:?}", esc(&st.after.bytes()), esc(&join_lines(&exp_a))));
        }
        if st.after.deleted != case.a.is_none() {
            return Verdict::Fail(format!("reverse: deleted flag {} but A {}", st.after.deleted, if case.a.is_none() { "absent" } else { "present" }));
        }
        // CLI
        if let Some(threads) = case.cli_threads {
            cx.label("cli");
            for reverse in [false, true] {
                let (start, want) = if reverse { (&b_bytes, &a_bytes) } else { (&a_bytes, &b_bytes) };
                let mut tree = Tree::default();
                if let Some(d) = start {
                    tree.files.insert(case.path.clone(), TFile { data: B(d.clone()), mode: 0o644 });
                }
                tree.files.insert("other.txt".into(), TFile { data: B::new("untouched\n"), mode: 0o644 });
                // with -p1 sometimes rely on the default strip level
                let strip_opt = if case.strip == 1 && case.patch.len() % 2 == 0 { String::new() } else { format!(" -p{}", case.strip) };
                let series = format!("p.patch{}{}\n", strip_opt, if reverse { " -R" } else { "" });
                let spec = WsSpec { tree: tree.clone(), patches: vec![("p.patch".into(), case.patch.clone())], series: B::new(series), applied: None, dirs: vec![], symlinks: vec![] };
                let root = cx.env.fresh_dir("c01-");
                spec.materialise(&root);
                let mut args = ws::base_args(threads);
                args.push("-a".into());
                args.push("-q".into());
                if case.patch.len() % 4 == 1 {
                    // the kept lines of A are then slices of a mapping of the very file that is replaced
                    args.push("--mmap".into());
                }
                if case.patch.len() % 3 == 0 {
                    // producing the quilt backups rolls the application back in memory: it must still succeed
                    args.push("--backup".into());
                    args.push("always".into());
                }
                let out = ws::run_bin(&cx.env.bin, &root, &args, &Default::default(), &cx.env.scratch);
                cx.evals += 1;
                let snap = ws::snapshot(&root);
                ws::rm_rf(&root);
                if out.exit == ws::Exit::Timeout {
                    return Verdict::Inconclusive("watchdog".into());
                }
                if out.exit != ws::Exit::Code(0) {
                    return Verdict::Fail(format!("cli {}: exit {:?}, stderr: {}", if reverse { "-R" } else { "fwd" }, out.exit, ws::lossy(&out.stderr)));
                }
                let mut exp = Tree::default();
                if let Some(d) = want {
                    exp.files.insert(case.path.clone(), TFile { data: B(d.clone()), mode: 0o644 });
                }
                exp.files.insert("other.txt".into(), TFile { data: B::new("untouched\n"), mode: 0o644 });
                if let Some(d) = ws::diff_maps(&ws::tree_as_map(&exp), &ws::user_files(&snap), true) {
                    return Verdict::Fail(format!("cli {}: tree differs: {}", if reverse { "-R" } else { "fwd" }, d));
                }
            }
        }
        Verdict::Pass
    }

    fn known_signature(&self, case: &Case, msg: &str) -> Option<&'static str> {
        // K2: a single context-free pure insertion/deletion on non-empty sides is taken for file
        // creation/deletion
        let a_nonempty = case.a.as_ref().map_or(false, |x| !x.is_empty());
        let b_nonempty = case.b.as_ref().map_or(false, |x| !x.is_empty());
        if case.context == 0 && a_nonempty && b_nonempty && (msg.contains("CreatingFileThatExists") || msg.contains("DeletingFileThatDoesNotMatch")) {
            if let inproc::Parsed::Ok(v) = inproc::parse_summary(&case.patch, case.strip) {
                // exactly the recorded shape: the empty side is located at line 0 ("-0,0" / "+0,0")
                if v.len() == 1 && v[0].hunks.len() == 1 && v[0].kind != "Modify" && ((v[0].hunks[0].old.is_empty() && v[0].hunks[0].old_line == 0) || (v[0].hunks[0].new.is_empty() && v[0].hunks[0].new_line == 0)) {
                    return Some("KF-C01-ctx0-single-pure-hunk");
                }
            }
        }
        None
    }
}
