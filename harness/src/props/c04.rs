//! C04 - undo restores content, existence and permissions exactly (in-process histories).

use crate::bytes::{esc, join_lines, B};
use crate::choose::{gen_line, Alphabet, Chooser};
use crate::diff::{HHunk, HLine};
use crate::engine::*;
use crate::inproc::{self, Rep, Step};
use crate::model::*;
use crate::props::place::{gen_hunks_for, k1_shape, placements};
use serde::{Deserialize, Serialize};

pub struct C04;

#[derive(Clone, Debug, Serialize, Deserialize)]
pub struct Case {
    /// None = the file does not exist at the start
    pub start: Option<Vec<B>>,
    pub start_mode: Option<u32>,
    /// patch texts, one per step
    pub patches: Vec<B>,
    pub steps: Vec<Step>,
    /// what each step was meant to be (labels)
    pub kinds: Vec<String>,
    /// CLI tier: a generated failing workspace; the failed push must leave the model tree of the
    /// patches before the failing one (undo of modifications, creations, deletions, renames, mode
    /// changes and partial applications through the binary's own rollback path)
    #[serde(default)]
    pub cli: Option<crate::props::cli::CliCase>,
}

fn render_plain(hunks: &[HHunk], old: &str, new: &str) -> Vec<u8> {
    let mut out = format!("--- {}\n+++ {}\n", old, new).into_bytes();
    for h in hunks {
        h.render(&mut out);
    }
    out
}

fn whole_file_hunk(lines: &[B], add: bool) -> HHunk {
    let n = lines.len() as u64;
    HHunk {
        old_start: if add { 0 } else { 1 },
        new_start: if add { 1 } else { 0 },
        lines: lines.iter().map(|l| HLine { tag: if add { b'+' } else { b'-' }, text: l.clone() }).collect(),
        omit_count_one: n != 1,
        func: None,
        bare_empty_ctx: false,
        localised_marker: false,
    }
}

impl Prop for C04 {
    type Case = Case;
    fn id(&self) -> &'static str {
        "C04"
    }
    fn rule(&self) -> String {
        "in-process histories: a start state (absent | content over a 2-4 letter alphabet, permissions) and 1..5 applications in sequence, each a file patch with its own direction and fuzz: modify (1-4 hunks cut from the predicted current content and perturbed, so complete and partial applications occur), create (with /dev/null or with the name on both sides), delete (to /dev/null or truncate), mode change alone or with hunks; then LIFO rollback. Oracle (inverse): after undoing step i the file's {content, deleted flag, permissions} equal the state recorded before step i; no panic anywhere. CLI tier (1 case in 60): a generated failing workspace whose failing patch mixes modify, create (both header forms), delete, rename, mode change and partial failures - the failed push must leave exactly the model tree of the patches before it (the binary's rollback incl. rename undo). non-trivial = some step applied >=2 hunks with a line-count change, or a create/delete/mode step is undone; distinct = distinct case".into()
    }
    fn assumptions(&self) -> Vec<String> {
        vec!["the generator predicts intermediate contents with the reference placement model only to cut plausible hunks; the oracle itself uses nothing but the states the implementation reported before each step".into()]
    }
    fn budget(&self, tier: Tier) -> (u32, usize) {
        (tier.pick(20000, 300000), 400)
    }
    fn build(&self, ch: &mut Chooser, cx: &mut CaseCtx) -> Case {
        if ch.chance(1, 60) {
            let mut c = crate::props::cli::build_cli_case(ch, cx, 8, false);
            c.opts.backup = ch.pick(&["always", "onfail", "never"]).to_string();
            return Case { start: None, start_mode: None, patches: vec![], steps: vec![], kinds: vec![], cli: Some(c) };
        }
        let k = ch.range(2, 4);
        let alpha = Alphabet::Small(k);
        let mut gen_lines = |ch: &mut Chooser, max: usize| -> Vec<B> {
            let n = ch.below(max + 1);
            (0..n)
                .map(|_| {
                    let mut l = gen_line(ch, alpha);
                    l.0.push(b'\n');
                    l
                })
                .collect()
        };
        let absent = ch.chance(1, 6);
        let start: Option<Vec<B>> = if absent { None } else { Some(gen_lines(ch, 12)) };
        let start_mode = if absent { None } else { Some(0o100000 | *ch.pick(&[0o644u32, 0o755, 0o600])) };
        // model state
        let mut lines: Vec<B> = start.clone().unwrap_or_default();
        let mut exists = !absent;
        let nsteps = ch.range(1, 5);
        let mut patches = Vec::new();
        let mut steps = Vec::new();
        let mut kinds = Vec::new();
        for _ in 0..nsteps {
            let reverse = ch.chance(1, 3);
            let fuzz = ch.below(3);
            let kind = if !exists || lines.is_empty() { ch.weighted(&[2, 6, 0, 1, 1]) } else { ch.weighted(&[10, 1, 2, 2, 2]) };
            // everything is first built in APPLY orientation
            let text: Vec<u8>;
            match kind {
                1 => {
                    // create
                    let mut newl = gen_lines(ch, 8);
                    if newl.is_empty() {
                        newl.push(B::new("a\n"));
                    }
                    let h = whole_file_hunk(&newl, true);
                    let both_names = ch.chance(1, 3);
                    let (o, n) = if both_names { ("a/f", "b/f") } else { ("/dev/null", "b/f") };
                    text = if reverse { render_plain(&[h.reversed()], n, o) } else { render_plain(&[h], o, n) };
                    kinds.push(format!("create{}", if both_names { "-both-names" } else { "" }));
                    if lines.is_empty() {
                        lines = newl;
                        exists = true;
                    }
                }
                2 => {
                    // delete everything (maybe with slightly wrong content => fails)
                    let mut dl = lines.clone();
                    let wrong = ch.chance(1, 6) && !dl.is_empty();
                    if wrong {
                        dl[0] = B::new("#\n");
                    }
                    let h = whole_file_hunk(&dl, false);
                    let to_null = ch.chance(2, 3);
                    let (o, n) = if to_null { ("a/f", "/dev/null") } else { ("a/f", "b/f") };
                    text = if reverse { render_plain(&[h.reversed()], n, o) } else { render_plain(&[h], o, n) };
                    kinds.push(format!("delete{}{}", if to_null { "-to-null" } else { "-truncate" }, if wrong { "-wrong" } else { "" }));
                    if !wrong {
                        lines.clear();
                        if to_null {
                            exists = false;
                        }
                    }
                }
                3 | 4 => {
                    // mode change, alone (3) or with hunks (4)
                    let om = 0o100000 | *ch.pick(&[0o644u32, 0o755]);
                    let nm = 0o100000 | *ch.pick(&[0o755u32, 0o600, 0o644]);
                    let (om, nm) = if reverse { (nm, om) } else { (om, nm) };
                    let mut t = format!("diff --git a/f b/f\nold mode {:06o}\nnew mode {:06o}\n", om, nm).into_bytes();
                    if kind == 4 {
                        let hs = gen_hunks_for(ch, &lines, k, 2);
                        let mh: Vec<MHunk> = hs.iter().map(|h| MHunk::from_hhunk(h, false)).collect();
                        let reps = place_all(&lines, &mh, fuzz);
                        let pl: Vec<_> = reps.iter().map(|r| if let MRep::Applied { line, fuzz } = r { Some((*line, *fuzz)) } else { None }).collect();
                        if let Ok(nl) = reconstruct(&lines, &mh, &pl) {
                            lines = nl;
                        }
                        t.extend_from_slice(b"--- a/f\n+++ b/f\n");
                        for h in &hs {
                            if reverse {
                                h.reversed().render(&mut t)
                            } else {
                                h.render(&mut t)
                            }
                        }
                        kinds.push("mode+hunks".into());
                    } else {
                        kinds.push("mode-only".into());
                    }
                    text = t;
                }
                _ => {
                    let hs = gen_hunks_for(ch, &lines, k, 4);
                    let mh: Vec<MHunk> = hs.iter().map(|h| MHunk::from_hhunk(h, false)).collect();
                    let reps = place_all(&lines, &mh, fuzz);
                    let pl: Vec<_> = reps.iter().map(|r| if let MRep::Applied { line, fuzz } = r { Some((*line, *fuzz)) } else { None }).collect();
                    if exists {
                        if let Ok(nl) = reconstruct(&lines, &mh, &pl) {
                            lines = nl;
                        }
                    }
                    let hs2: Vec<HHunk> = if reverse { hs.iter().map(|h| h.reversed()).collect() } else { hs };
                    text = render_plain(&hs2, "a/f", "b/f");
                    kinds.push("modify".into());
                }
            }
            steps.push(Step { patch: patches.len(), reverse, fuzz });
            patches.push(B(text));
        }
        Case { start, start_mode, patches, steps, kinds, cli: None }
    }

    fn check(&self, case: &Case, cx: &mut CaseCtx) -> Verdict {
        if let Some(c) = &case.cli {
            cx.label("cli-failing-workspace");
            let v = crate::props::cli::check_c05_like(c, cx, false);
            // non-trivial for C04: the failing patch had something applied that had to be undone
            if let Some(j) = c.ws.fail_at {
                cx.nontrivial = c.ws.metas[j].ops.iter().any(|o| o.failing_hunks.len() < o.hunks.len().max(1));
                for o in &c.ws.metas[j].ops {
                    cx.label(&format!("undo-{}", o.kind));
                }
            }
            return v;
        }
        for k in &case.kinds {
            cx.label(&format!("step-{}", k));
        }
        let file = case.start.as_ref().map(|l| join_lines(l));
        let texts: Vec<Vec<u8>> = case.patches.iter().map(|p| p.0.clone()).collect();
        let h = match inproc::run_history(file.as_deref(), case.start_mode, &texts, &case.steps, true) {
            Ok(Ok(h)) => h,
            Ok(Err(p)) => return Verdict::Fail(p),
            Err(e) => return Verdict::Fail(format!("harness/generator problem: {}", e)),
        };
        let n = case.steps.len();
        cx.label_if(n >= 3, "stack-depth>=3");
        for (i, st) in h.steps.iter().enumerate() {
            let applied = st.reps.iter().filter(|r| matches!(r, Rep::Applied { .. })).count();
            let failed = st.reps.iter().filter(|r| matches!(r, Rep::Failed(_))).count();
            cx.label_if(applied > 0 && failed > 0, "partial-application");
            cx.label_if(st.reps.iter().any(|r| matches!(r, Rep::Applied{fuzz,..} if *fuzz>0)), "fuzz>0-application");
            cx.label_if(case.steps[i].reverse, "reverse-direction");
            let changed_len = st.before.lines.len() != st.after.lines.len();
            if (applied >= 2 && changed_len) || (case.kinds[i] != "modify" && applied > 0) {
                cx.nontrivial = true;
            }
        }
        for (k, rb) in h.rollbacks.iter().enumerate() {
            let i = n - 1 - k;
            match rb {
                Err(p) => return Verdict::Fail(format!("{} (step kinds {:?}; reports of that step {:?})", p, case.kinds, h.steps[i].reps)),
                Ok(state) => {
                    let want = &h.steps[i].before;
                    if state != want {
                        return Verdict::Fail(format!(
                            "after undoing step {} ({}) the file is {{content {:?}, deleted {}, perms {:?}}} but before that step it was {{content {:?}, deleted {}, perms {:?}}}; reports {:?}",
                            i,
                            case.kinds[i],
                            esc(&state.bytes()),
                            state.deleted,
                            state.perms,
                            esc(&want.bytes()),
                            want.deleted,
                            want.perms,
                            h.steps[i].reps
                        ));
                    }
                }
            }
        }
        if h.rollbacks.len() != n {
            return Verdict::Fail("rollback sequence incomplete".into());
        }
        Verdict::Pass
    }

    fn known_signature(&self, case: &Case, msg: &str) -> Option<&'static str> {
        // K3: undo of a creation whose header names the file on both sides leaves it non-deleted
        if msg.contains("deleted false") && msg.contains("deleted true") && case.kinds.iter().any(|k| k == "create-both-names") {
            // the undone step must be such a creation
            if let Some(pos) = msg.find("after undoing step ") {
                let rest = &msg[pos + "after undoing step ".len()..];
                if let Some(i) = rest.split_whitespace().next().and_then(|t| t.parse::<usize>().ok()) {
                    if case.kinds.get(i).map(|s| s.as_str()) == Some("create-both-names") {
                        return Some("KF-K3-undo-create-with-both-names");
                    }
                }
            }
        }
        let _ = (k1_shape as fn(&[MHunk], &[Option<(i64, usize)>]) -> (bool, bool), placements as fn(&[Rep]) -> Vec<Option<(i64, usize)>>);
        None
    }
}
