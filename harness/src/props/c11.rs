//! C11 - the parser (and the tool) is total.

use crate::alloc;
use crate::bytes::B;
use crate::choose::{gen_alphabet, Chooser};
use crate::diff::Merge;
use crate::engine::*;
use crate::gen::*;
use crate::inproc;
use crate::ptext::render_patch;
use crate::ws::{self, Exit, TFile, Tree, WsSpec};
use serde::{Deserialize, Serialize};

pub struct C11;

#[derive(Clone, Debug, Serialize, Deserialize, PartialEq)]
pub enum Mode {
    /// parse in-process only
    Parse,
    /// also run the binary with the data as patch file
    CliPatch,
    /// run the binary with the data as series file
    CliSeries,
}

#[derive(Clone, Debug, Serialize, Deserialize)]
pub struct Case {
    pub mode: Mode,
    pub data: B,
    pub origin: String,
    #[serde(default)]
    pub threads: usize,
    #[serde(default)]
    pub verbosity: String,
}

pub const TOKENS: &[&[u8]] = &[
    b"--- a/f\n",
    b"+++ b/f\n",
    b"--- /dev/null\n",
    b"+++ /dev/null\n",
    b"diff --git a/f b/f\n",
    b"diff --git a/f\n",
    b"@@ -1 +1 @@\n",
    // a blank behind the second "@@" and nothing else: an empty function name
    b"@@ -1 +1 @@ \n",
    b"@@ -1,2 +1,2 @@\n",
    b"@@ -0,0 +1 @@\n",
    b"@@ -1 +0,0 @@\n",
    b"@@ -1,18446744073709551615 +1,18446744073709551615 @@\n",
    b"@@ -18446744073709551616,1 +1 @@\n",
    b"@@ -9223372036854775808 +9223372036854775808 @@\n",
    b"@@ -1,1000000 +1,1000000 @@\n",
    b"@@ -4611686018427387903,0 +4611686018427387903 @@\n",
    b"@@ -9223372036854775807,0 +1 @@\n",
    b"@@ -72057594037927936,2 +72057594037927936,2 @@\n",
    b"@@ - invalid\n",
    b"+x\n",
    b"-x\n",
    b" x\n",
    b"\tx\n",
    b"\n",
    b"\\ No newline at end of file\n",
    b"x",
    b"index 123..456 100644\n",
    b"old mode 100644\n",
    b"new mode 1\n",
    b"new file mode 100644\n",
    b"deleted file mode 100644\n",
    b"rename from f\n",
    b"rename to g\n",
    b"GIT binary patch\n",
    b"--- \"a/q\\\n",
];

const EXTREMES: &[&str] = &[
    "0", "1", "2", "7", "1000", "65536", "1000000", "2147483648", "4294967295", "4294967296", "9223372036854775807", "9223372036854775808", "18446744073709551615",
    "18446744073709551616", "1000000000000000000000000000000", "999999999999", "12345678", "4611686018427387903", "4611686018427387904", "72057594037927936", "1152921504606846976",
    "281474976710656",
];

fn seeds() -> &'static Vec<Vec<u8>> {
    static S: std::sync::OnceLock<Vec<Vec<u8>>> = std::sync::OnceLock::new();
    S.get_or_init(|| {
        let mut v = Vec::new();
        for dir in ["/repo/testdata/parsing", "/repo/testdata/patching"] {
            if let Ok(rd) = std::fs::read_dir(dir) {
                let mut files: Vec<_> = rd.filter_map(|e| e.ok().map(|e| e.path())).filter(|p| p.extension().map_or(false, |e| e == "patch")).collect();
                files.sort();
                for f in files {
                    if let Ok(d) = std::fs::read(&f) {
                        if d.len() < 20000 {
                            v.push(d);
                        }
                    }
                }
            }
        }
        v
    })
}

fn number_spans(d: &[u8]) -> Vec<(usize, usize)> {
    let mut v = Vec::new();
    let mut i = 0;
    while i < d.len() {
        if d[i].is_ascii_digit() {
            let s = i;
            while i < d.len() && d[i].is_ascii_digit() {
                i += 1;
            }
            v.push((s, i));
        } else {
            i += 1;
        }
    }
    v
}

/// numeric fields that sit on hunk-header or series-option lines
fn header_number_spans(d: &[u8]) -> Vec<(usize, usize)> {
    let mut out = Vec::new();
    let mut ls = 0;
    for (i, &c) in d.iter().enumerate() {
        if c == b'\n' || i + 1 == d.len() {
            let le = if c == b'\n' { i } else { i + 1 };
            let line = &d[ls..le];
            if line.starts_with(b"@@ ") || line.windows(2).any(|w| w == b"-p") || line.starts_with(b"index ") || line.contains(&b'm') && line.ends_with(b"0644") {
                for (s, e) in number_spans(line) {
                    out.push((ls + s, ls + e));
                }
            }
            ls = i + 1;
        }
    }
    out
}

/// patches written against the files of the CLI fixture (f: a,b,c,d,e; src/f.c: a,b,c), so that context
/// really matches and the failure diagnostics have something to chew on
const FIXTURE_PATCHES: &[&[u8]] = &[
    b"--- a/f\n+++ b/f\n@@ -1,3 +1,3 @@\n a\n-b\n+B\n c\n",
    b"--- a/f\n+++ b/f\n@@ -1,3 +1,3 @@\n a\n-X\n+B\n c\n",
    b"--- a/f\n+++ b/f\n@@ -2,3 +2,4 @@\n b\n-X\n+C\n+C2\n d\n@@ -4,2 +5,2 @@\n d\n-e\n+E\n",
    b"--- a/f\n+++ b/f\n@@ -3,3 +3,2 @@\n c\n-Y\n e\n",
    b"--- a/f\n+++ b/f\n@@ -4,2 +4,3 @@\n d\n e\n+f\n",
    b"--- a/src/f.c\n+++ b/src/f.c\n@@ -1,3 +1,3 @@\n a\n-q\n+B\n c\n--- a/f\n+++ b/f\n@@ -1,2 +1,2 @@\n-a\n+A\n b\n",
    b"diff --git a/f b/g\nsimilarity index 80%\nrename from f\nrename to g\n--- a/f\n+++ b/g\n@@ -1,3 +1,3 @@\n a\n-Z\n+B\n c\n",
    b"--- a/f\n+++ b/f\n@@ -2,0 +3,1 @@\n+new\n@@ -5,1 +6,0 @@\n-E\n",
];

fn gen_valid_patch(ch: &mut Chooser) -> Vec<u8> {
    let alpha = gen_alphabet(ch);
    let n = ch.range(1, 3);
    let mut fps = Vec::new();
    for _ in 0..n {
        let a = gen_file_lines(ch, alpha, 12, true);
        let (b, ops) = gen_edit(ch, &a, alpha, true);
        let d = gen_dialect(ch, true);
        let path = gen_path(ch, true);
        let chg = FileChange { old_path: path.clone(), new_path: path, old: Some(a), new: Some(b), old_mode: Some(0o644), new_mode: Some(*ch.pick(&[0o644u32, 0o755])), rename: false };
        let c = ch.below(4);
        fps.push(build_file_patch(ch, &d, &chg, &ops, c, Merge::Gnu));
    }
    render_patch(&fps)
}

fn mutate(ch: &mut Chooser, mut d: Vec<u8>) -> Vec<u8> {
    let n = ch.range(1, 3);
    for _ in 0..n {
        match ch.below(8) {
            0 | 1 | 2 => {
                let spans = if ch.chance(3, 4) { header_number_spans(&d) } else { number_spans(&d) };
                if !spans.is_empty() {
                    let (s, e) = spans[ch.below(spans.len())];
                    let rep = if ch.chance(1, 3) { format!("{}", 1000 + ch.below(10_000_000)) } else { EXTREMES[ch.below(EXTREMES.len())].to_string() };
                    d.splice(s..e, rep.bytes());
                }
            }
            3 => {
                if !d.is_empty() {
                    let at = ch.below(d.len() + 1);
                    d.truncate(at);
                }
            }
            4 => {
                // delete a line
                let lines = crate::bytes::split_lines(&d);
                if !lines.is_empty() {
                    let k = ch.below(lines.len());
                    d = lines.iter().enumerate().filter(|(i, _)| *i != k).flat_map(|(_, l)| l.0.clone()).collect();
                }
            }
            5 => {
                let lines = crate::bytes::split_lines(&d);
                if !lines.is_empty() {
                    let k = ch.below(lines.len());
                    let mut v = Vec::new();
                    for (i, l) in lines.iter().enumerate() {
                        v.extend_from_slice(l);
                        if i == k {
                            v.extend_from_slice(l);
                        }
                    }
                    d = v;
                }
            }
            6 => {
                if !d.is_empty() {
                    let at = ch.below(d.len());
                    d[at] = ch.below(256) as u8;
                }
            }
            _ => {
                let lines = crate::bytes::split_lines(&d);
                let k = ch.below(lines.len() + 1);
                let tok = TOKENS[ch.below(TOKENS.len())];
                let mut v = Vec::new();
                for (i, l) in lines.iter().enumerate() {
                    if i == k {
                        v.extend_from_slice(tok);
                    }
                    v.extend_from_slice(l);
                }
                if k == lines.len() {
                    v.extend_from_slice(tok);
                }
                d = v;
            }
        }
    }
    d
}

const GIT_TOKENS: &[&[u8]] = &[
    // header lines whose "name" in front of the TAB is nothing but odd white space
    b"--- \x0c\t2019-01-01 00:00:00.000000000 +0000\n",
    b"+++ \x0b\t\n",
    b"--- \r\t\n",
    b"+++ \t\n",
    b"--- a b\tc d\t\n",
    b"rename from f\n",
    b"rename to g\n",
    b"rename from src/f.c\n",
    b"rename to h\n",
    b"copy from f\n",
    b"copy to g\n",
    b"similarity index 90%\n",
    b"old mode 100644\n",
    b"new mode 100755\n",
    b"new file mode 100644\n",
    b"deleted file mode 100644\n",
    b"index 1234567..89abcde 100644\n",
    b"index 1234567..89abcde\n",
    b"GIT binary patch\n",
];

const SERIES_TOKENS: &[&str] = &[
    "p.patch", "p.patch -p1", "p.patch -p0", "p.patch -p 1", "p.patch --strip=1", "p.patch --strip 2", "p.patch -R", "p.patch -R -p1", "p.patch -p1 -R", "p.patch -Rp1", "p.patch -p4000000000",
    "p.patch -p18446744073709551615", "p.patch -p18446744073709551616", "p.patch -p-1", "p.patch -px", "p.patch -p", "p.patch --bogus", "p.patch -E", "# comment", "", "   ", "\tp.patch", " p.patch",
    "q.patch", "p.patch extra words", "p.patch -p1 -p2", "#p.patch", "p.patch#x", "\u{e4}.patch", "p.patch -R -R",
];

fn meaningful_lines(d: &[u8]) -> usize {
    crate::bytes::split_lines(d)
        .iter()
        .filter(|l| l.starts_with(b"--- ") || l.starts_with(b"+++ ") || l.starts_with(b"@@ ") || l.starts_with(b"diff --git ") || l.starts_with(b"index ") || l.starts_with(b"rename ") || l.ends_with(b"mode 100644\n"))
        .count()
}

impl C11 {
    fn check_parse(&self, data: &[u8], cx: &mut CaseCtx) -> Result<(), String> {
        let limit = 64 * data.len() + 64 * 1024;
        for strip in [0usize, 1] {
            alloc::arm(limit);
            let r = inproc::parse_summary(data, strip);
            let (maxreq, peak) = alloc::disarm();
            cx.evals += 1;
            let _ = maxreq;
            if peak > (256 * data.len() + 256 * 1024) as i64 {
                return Err(format!("parser held {} bytes live for a {}-byte input (bound 256*len+256KiB)", peak, data.len()));
            }
            if strip == 0 {
                if let inproc::Parsed::Ok(v) = &r {
                    if !v.is_empty() {
                        // the parsed patch must also be applicable (or fail) without a crash
                        if let Err(m) = inproc::apply_smoke(data) {
                            return Err(m);
                        }
                        cx.evals += 1;
                    }
                }
            }
            match r {
                inproc::Parsed::Panic(m) => return Err(format!("parser panicked (strip {}): {}", strip, m)),
                inproc::Parsed::Ok(v) => {
                    cx.label_if(!v.is_empty(), "parsed-to-filepatch");
                    cx.label_if(v.is_empty(), "parsed-empty");
                }
                inproc::Parsed::Err(_) => cx.label("parse-error"),
            }
        }
        Ok(())
    }
}

impl Prop for C11 {
    type Case = Case;
    fn id(&self) -> &'static str {
        "C11"
    }
    fn rule(&self) -> String {
        format!(
            "sweep: every sequence of <= {{4 quick, 5 thorough}} lines over a {}-token alphabet of syntactically meaningful patch lines (exhaustive), parsed in-process at -p0 and -p1 under catch_unwind with a counting allocator (single request <= 64*len+64KiB, live peak <= 256*len+256KiB; an oversized request ends the shard and is reported with the input); random: arbitrary bytes, token soups, and mutations (numeric fields -> 0..2^64+ and 10^3..10^7, truncation at any byte, line deletion/duplication, byte flips, token insertion) of the repository's testdata patches and of generator output; 1 in 12 random inputs also goes through the real binary as patch file (exit status must be 0 or 1), plus generated series files (option spellings, huge -p). A watchdog hit is re-run next to a sibling with all long numbers replaced by 7 and is a violation only if the sibling finishes in <1s while the original burnt >=8 CPU-seconds (10 s watchdog). non-trivial = input has >=1 header/hunk-header/metadata line; distinct = distinct input",
            TOKENS.len()
        )
    }
    fn assumptions(&self) -> Vec<String> {
        vec![
            "stack overflow / abort are observed through shard process death (the shard records its current input first)".into(),
            "termination is decided with a CPU-time bound relative to a small-number sibling, not by wall clock alone".into(),
            "the binary is the dev-profile build (overflow checks on), like the repository's own test suite".into(),
        ]
    }
    fn budget(&self, tier: Tier) -> (u32, usize) {
        (tier.pick(12000, 200000), 300)
    }
    fn crash_is_violation(&self) -> bool {
        true
    }

    fn sweep(&self, env: &Env, sink: &mut dyn FnMut(Case) -> bool) -> Option<SweepInfo> {
        let maxlen = env.tier.pick(4usize, 5usize);
        let n = TOKENS.len();
        // partition by the first token index modulo shard count (length-0 and the rest spread evenly)
        let mut count: u64 = 0;
        for len in 0..=maxlen {
            let total = (n as u64).pow(len as u32);
            let mut idx = env.shard as u64;
            while idx < total {
                let mut data = Vec::new();
                let mut k = idx;
                for _ in 0..len {
                    data.extend_from_slice(TOKENS[(k % n as u64) as usize]);
                    k /= n as u64;
                }
                count += 1;
                if !sink(Case { mode: Mode::Parse, data: B(data), origin: "sweep".into(), threads: 1, verbosity: String::new() }) {
                    return Some(SweepInfo { description: "aborted on failure".into(), exhaustive: false });
                }
                idx += SHARDS as u64;
            }
        }
        let _ = count;
        Some(SweepInfo { description: format!("all sequences of 0..={} lines over {} tokens, parsed at -p0 and -p1", maxlen, n), exhaustive: true })
    }

    fn build(&self, ch: &mut Chooser, _cx: &mut CaseCtx) -> Case {
        let kind = ch.weighted(&[2, 4, 5, 4, 1, 3, 3]);
        let (data, origin): (Vec<u8>, &str) = match kind {
            0 => {
                let n = ch.below(200);
                ((0..n).map(|_| if ch.chance(1, 4) { b'\n' } else { ch.below(256) as u8 }).collect(), "bytes")
            }
            1 => {
                let n = ch.range(1, 30);
                let mut d = Vec::new();
                for _ in 0..n {
                    d.extend_from_slice(TOKENS[ch.below(TOKENS.len())]);
                }
                (d, "token-soup")
            }
            2 => {
                let s = seeds();
                if s.is_empty() {
                    let p = gen_valid_patch(ch);
                    (mutate(ch, p), "mutated-generated")
                } else {
                    let base = s[ch.below(s.len())].clone();
                    (mutate(ch, base), "mutated-testdata")
                }
            }
            3 => {
                let p = gen_valid_patch(ch);
                (mutate(ch, p), "mutated-generated")
            }
            6 => {
                let base = FIXTURE_PATCHES[ch.below(FIXTURE_PATCHES.len())].to_vec();
                (mutate(ch, base), "mutated-fixture-patch")
            }
            5 => {
                // git-style entries with unusual (legal and illegal) combinations of extended headers
                let mut d = Vec::new();
                let nent = ch.range(1, 2);
                for _ in 0..nent {
                    let (a, b) = (*ch.pick(&["f", "src/f.c", "g"]), *ch.pick(&["f", "src/f.c", "g", "h"]));
                    d.extend_from_slice(format!("diff --git a/{} b/{}\n", a, b).as_bytes());
                    let nm = ch.below(5);
                    for _ in 0..nm {
                        d.extend_from_slice(GIT_TOKENS[ch.below(GIT_TOKENS.len())]);
                    }
                    if ch.chance(3, 4) {
                        let o = *ch.pick(&["a/f", "a/src/f.c", "/dev/null", "a/g"]);
                        let n = *ch.pick(&["b/f", "b/src/f.c", "/dev/null", "b/h"]);
                        d.extend_from_slice(format!("--- {}\n+++ {}\n", o, n).as_bytes());
                        if ch.chance(3, 4) {
                            d.extend_from_slice(*ch.pick(&[&b"@@ -1,3 +1,3 @@\n a\n-b\n+B\n c\n"[..], &b"@@ -0,0 +1,2 @@\n+x\n+y\n"[..], &b"@@ -1,3 +0,0 @@\n-a\n-b\n-c\n"[..], &b"@@ -1,5 +0,0 @@\n-a\n-b\n-c\n-d\n-e\n"[..]]));
                        }
                    }
                }
                (d, "git-soup")
            }
            _ => {
                let n = ch.range(1, 5);
                let mut d = Vec::new();
                for _ in 0..n {
                    d.extend_from_slice(SERIES_TOKENS[ch.below(SERIES_TOKENS.len())].as_bytes());
                    if ch.chance(7, 8) {
                        d.push(b'\n');
                    }
                }
                (d, "series")
            }
        };
        let mode = if kind == 4 {
            Mode::CliSeries
        } else if kind == 5 || kind == 6 || ch.chance(1, 12) {
            Mode::CliPatch
        } else {
            Mode::Parse
        };
        let threads = *ch.pick(&[1usize, 1, 2]);
        let verbosity = ch.pick(&["", "", "-q", "-v"]).to_string();
        Case { mode, data: B(data), origin: origin.into(), threads, verbosity }
    }

    fn check(&self, case: &Case, cx: &mut CaseCtx) -> Verdict {
        cx.label(&format!("origin-{}", case.origin));
        if meaningful_lines(&case.data) >= 1 || case.mode == Mode::CliSeries {
            cx.nontrivial = true;
        }
        if case.mode != Mode::CliSeries {
            cx.env.note_case(case);
            let r = self.check_parse(&case.data, cx);
            cx.env.case_done();
            if let Err(m) = r {
                return Verdict::Fail(m);
            }
        }
        if case.mode == Mode::Parse {
            return Verdict::Pass;
        }
        cx.label(if case.mode == Mode::CliSeries { "cli-series" } else { "cli-patch" });
        let run = |data_patch: &[u8], data_series: &[u8], cx: &mut CaseCtx, timeout: u64| {
            let mut tree = Tree::default();
            tree.files.insert("f".into(), TFile { data: B::new("a\nb\nc\nd\ne\n"), mode: 0o644 });
            tree.files.insert("src/f.c".into(), TFile { data: B::new("a\nb\nc\n"), mode: 0o644 });
            let spec = WsSpec { tree, patches: vec![("p.patch".into(), B::new(data_patch))], series: B::new(data_series), applied: None, dirs: vec![], symlinks: vec![] };
            let root = cx.env.fresh_dir("c11-");
            spec.materialise(&root);
            let mut args = ws::base_args(case.threads.max(1));
            args.push("-a".into());
            if !case.verbosity.is_empty() {
                args.push(case.verbosity.clone());
            }
            let out = ws::run_bin(&cx.env.bin, &root, &args, &ws::RunOpts { timeout_s: Some(timeout), ..Default::default() }, &cx.env.scratch);
            cx.evals += 1;
            ws::rm_rf(&root);
            out
        };
        let valid_patch: &[u8] = b"--- a/f\n+++ b/f\n@@ -1,3 +1,3 @@\n a\n-b\n+B\n c\n";
        let (pd, sd): (Vec<u8>, Vec<u8>) = if case.mode == Mode::CliSeries { (valid_patch.to_vec(), case.data.0.clone()) } else { (case.data.0.clone(), b"p.patch\n".to_vec()) };
        let out = run(&pd, &sd, cx, 10);
        match out.exit {
            Exit::Code(0) | Exit::Code(1) => Verdict::Pass,
            Exit::Timeout => {
                // scaling sibling: all runs of >=4 digits become "7"
                let shrink_numbers = |d: &[u8]| {
                    let mut v = Vec::new();
                    let mut i = 0;
                    while i < d.len() {
                        if d[i].is_ascii_digit() {
                            let s = i;
                            while i < d.len() && d[i].is_ascii_digit() {
                                i += 1;
                            }
                            if i - s >= 4 {
                                v.push(b'7');
                            } else {
                                v.extend_from_slice(&d[s..i]);
                            }
                        } else {
                            v.push(d[i]);
                            i += 1;
                        }
                    }
                    v
                };
                let sib = run(&shrink_numbers(&pd), &shrink_numbers(&sd), cx, 10);
                if out.cpu_s >= 8.0 && matches!(sib.exit, Exit::Code(_)) && sib.cpu_s < 1.0 {
                    Verdict::FailNoShrink(format!("tool did not finish within 10 s ({:.1} CPU-seconds) on a {}-byte input whose small-number sibling takes {:.3} s: work out of proportion to the input", out.cpu_s, case.data.len(), sib.cpu_s))
                } else {
                    Verdict::Inconclusive(format!("watchdog hit (cpu {:.1}s, sibling {:?} {:.2}s)", out.cpu_s, sib.exit, sib.cpu_s))
                }
            }
            other => Verdict::Fail(format!("tool crashed: {:?}; stderr: {}", other, ws::lossy(&out.stderr))),
        }
    }
}
