//! C12 - write-then-parse preserves a parsed patch; writing is a fixed point.

use crate::bytes::{esc, B};
use crate::choose::Chooser;
use crate::engine::*;
use crate::inproc::{self, PFile};
use crate::props::c11::TOKENS;
use crate::wsgen::*;
use serde::{Deserialize, Serialize};

pub struct C12;

#[derive(Clone, Debug, Serialize, Deserialize)]
pub struct Case {
    pub data: B,
    pub origin: String,
}

/// the part of a parsed file patch the property speaks about
fn view(f: &PFile) -> (String, Option<B>, Option<B>, bool, Option<u32>, Option<u32>, Option<B>, Option<B>, Vec<(Vec<B>, Vec<B>, i64, i64)>) {
    (
        f.kind.clone(),
        f.old_name.clone(),
        f.new_name.clone(),
        f.rename,
        f.old_mode,
        f.new_mode,
        f.old_hash.clone(),
        f.new_hash.clone(),
        f.hunks.iter().map(|h| (h.old.clone(), h.new.clone(), h.old_line, h.new_line)).collect(),
    )
}

fn needs_quoting(n: &Option<B>) -> bool {
    n.as_ref().map_or(false, |n| crate::ptext::needs_quote(n))
}

fn seeds() -> Vec<Vec<u8>> {
    let mut v = Vec::new();
    for dir in ["/repo/testdata/parsing", "/repo/testdata/patching"] {
        if let Ok(rd) = std::fs::read_dir(dir) {
            let mut files: Vec<_> = rd.filter_map(|e| e.ok().map(|e| e.path())).filter(|p| p.extension().map_or(false, |e| e == "patch")).collect();
            files.sort();
            for f in files {
                if let Ok(d) = std::fs::read(&f) {
                    if d.len() < 20000 {
                        v.push(d);
                    }
                }
            }
        }
    }
    v
}

const EXTRA_TOKENS: &[&[u8]] = &[
    b"diff --git a/g b/h\n",
    b"rename from g\n",
    b"rename to h\n",
    b"copy from g\n",
    b"copy to h\n",
    b"old mode 100644\n",
    b"new mode 100755\n",
    b"old mode 000644\n",
    b"deleted file mode 100644\n",
    b"new file mode 100755\n",
    b"index 1234567..89abcde\n",
    b"--- a/g\n",
    b"+++ b/h\n",
    b"--- a/g\t2019-01-01 00:00:00.000000000 +0000\n",
    b"--- \"a/sp ace\"\n",
    b"+++ \"b/sp ace\"\n",
    b"@@ -3,0 +4 @@\n",
    b"@@ -5 +4,0 @@\n",
    // a hunk without any line (both counts zero)
    b"@@ -7,0 +7,0 @@\n",
    b"@@ -7,0 +6,0 @@\n",
    b"@@ -2,2 +2,2 @@ fn\n",
    b"@@ -2,2 +2,2 @@ \n",
    b" y\n",
    b"+y\n",
    b"-y\n",
    b"+z",
    // an empty line that is the unterminated last line of its side
    b"+\n\\ No newline at end of file\n",
    b"-\n\\ No newline at end of file\n",
    b" \n\\ No newline at end of file\n",
];

impl Prop for C12 {
    type Case = Case;
    fn id(&self) -> &'static str {
        "C12"
    }
    fn rule(&self) -> String {
        "inputs the parser accepts among: patch files of generated workspaces (every header dialect, garbage between file patches, empty sides, lines without newline in any position, git mode/rename/create/delete metadata, hunkless git entries, -R forms, names needing C quotes), sequences of 1..30 syntactically meaningful lines (token soups incl. copy/rename/mode lines and zero-count hunks), single hunks rewriting up to 700 lines by up to 700 others, and the repository's testdata patches with line-level mutations. Oracle (round trip): p1 = parse(x), w1 = write(p1); parse(w1) must succeed and describe the same file patches - kind, old/new name, rename flag, modes, hashes, per hunk the old-side and new-side line sequences (incl. missing final newlines) and both start lines - and write(parse(w1)) == w1 byte for byte. non-trivial = p1 has >=1 file patch; distinct = distinct input".into()
    }
    fn assumptions(&self) -> Vec<String> {
        vec!["the context/changed classification of individual lines and the function text after @@ are not compared (the statement speaks of the two line sequences)".into()]
    }
    fn budget(&self, tier: Tier) -> (u32, usize) {
        (tier.pick(6000, 150000), 900)
    }
    fn build(&self, ch: &mut Chooser, cx: &mut CaseCtx) -> Case {
        match ch.weighted(&[5, 4, 2, 1]) {
            3 => {
                // one hunk that rewrites a large block: hundreds of lines on both sides without a common line
                let (n, m) = (ch.range(1, 700), ch.range(1, 700));
                let ctx = ch.below(4);
                let mut d = b"--- a/big.txt\n+++ b/big.txt\n".to_vec();
                d.extend_from_slice(format!("@@ -{},{} +{},{} @@\n", 10, n + 2 * ctx, 10, m + 2 * ctx).as_bytes());
                for i in 0..ctx {
                    d.extend_from_slice(format!(" before {}\n", i).as_bytes());
                }
                for i in 0..n {
                    d.extend_from_slice(format!("-old line {}\n", i).as_bytes());
                }
                for i in 0..m {
                    d.extend_from_slice(format!("+new line {}\n", i).as_bytes());
                }
                for i in 0..ctx {
                    d.extend_from_slice(format!(" after {}\n", i).as_bytes());
                }
                Case { data: B(d), origin: "large-block-rewrite".into() }
            }
            0 => {
                let nasty = cx.feature("KF-K8-names-needing-quotes-written-bare") && ch.chance(1, 4);
                let o = WsGenOpts { fail_chance: 2, max_patches: 3, max_files: 4, max_lines: 12, nasty_names: nasty, ..Default::default() };
                if !cx.feature("KF-K8-names-needing-quotes-written-bare") && ch.chance(1, 4) {
                    cx.exclude("KF-K8-names-needing-quotes-written-bare");
                }
                let ws = gen_ws(ch, cx, &o);
                let i = ch.below(ws.spec.patches.len());
                Case { data: ws.spec.patches[i].1.clone(), origin: "generated-workspace-patch".into() }
            }
            1 => {
                let n = ch.range(1, 30);
                let mut d = Vec::new();
                for _ in 0..n {
                    if ch.chance(1, 2) {
                        d.extend_from_slice(TOKENS[ch.below(TOKENS.len())]);
                    } else {
                        d.extend_from_slice(EXTRA_TOKENS[ch.below(EXTRA_TOKENS.len())]);
                    }
                }
                Case { data: B(d), origin: "token-soup".into() }
            }
            _ => {
                let s = seeds();
                if s.is_empty() {
                    return Case { data: B::new("--- a/f\n+++ b/f\n@@ -1 +1 @@\n-a\n+b\n"), origin: "fallback".into() };
                }
                let base = s[ch.below(s.len())].clone();
                let mut lines = crate::bytes::split_lines(&base);
                let m = ch.range(0, 2);
                for _ in 0..m {
                    if lines.is_empty() {
                        break;
                    }
                    let k = ch.below(lines.len());
                    match ch.below(3) {
                        0 => {
                            lines.remove(k);
                        }
                        1 => {
                            let l = lines[k].clone();
                            lines.insert(k, l);
                        }
                        _ => lines.insert(k, B::new(EXTRA_TOKENS[ch.below(EXTRA_TOKENS.len())])),
                    }
                }
                Case { data: B(crate::bytes::join_lines(&lines)), origin: "mutated-testdata".into() }
            }
        }
    }
    fn check(&self, case: &Case, cx: &mut CaseCtx) -> Verdict {
        cx.label(&format!("origin-{}", case.origin));
        let (p1, w1) = match inproc::parse_and_write(&case.data) {
            Ok(x) => x,
            Err(e) if e.starts_with("parse error") => {
                cx.label("input-rejected");
                return Verdict::Pass;
            }
            Err(e) => return Verdict::Fail(format!("first parse/write: {}", e)),
        };
        if p1.is_empty() {
            cx.label("no-file-patch");
            return Verdict::Pass;
        }
        cx.nontrivial = true;
        for f in &p1 {
            cx.label_if(f.hunks.is_empty(), "hunkless");
            cx.label_if(f.kind != "Modify", "kind-create/delete");
            cx.label_if(f.old_mode.is_some() || f.new_mode.is_some(), "modes");
            cx.label_if(f.rename, "rename");
            cx.label_if(needs_quoting(&f.old_name) || needs_quoting(&f.new_name), "names-needing-quotes");
            cx.label_if(f.old_name.is_none() || f.new_name.is_none(), "one-sided-name");
            cx.label_if(f.hunks.iter().any(|h| h.old.is_empty() || h.new.is_empty()), "zero-count-side");
            cx.label_if(f.hunks.iter().any(|h| h.old.iter().chain(h.new.iter()).any(|l| l.last() != Some(&b'\n'))), "no-newline-line");
        }
        let (p2, w2) = match inproc::parse_and_write(&w1) {
            Ok(x) => x,
            Err(e) => return Verdict::Fail(format!("the written form is not accepted: {}; written form: {:?}", e, esc(&w1[..w1.len().min(800)]))),
        };
        if p2.len() != p1.len() {
            return Verdict::Fail(format!("the written form describes {} file patches, the input {}; written form: {:?}", p2.len(), p1.len(), esc(&w1[..w1.len().min(800)])));
        }
        for (i, (a, b)) in p1.iter().zip(&p2).enumerate() {
            if view(a) != view(b) {
                let (va, vb) = (view(a), view(b));
                let what = if va.0 != vb.0 {
                    format!("kind {} -> {}", va.0, vb.0)
                } else if va.1 != vb.1 || va.2 != vb.2 {
                    format!("names {:?}/{:?} -> {:?}/{:?}", va.1, va.2, vb.1, vb.2)
                } else if va.3 != vb.3 {
                    format!("rename flag {} -> {}", va.3, vb.3)
                } else if va.4 != vb.4 || va.5 != vb.5 {
                    format!("modes {:?}/{:?} -> {:?}/{:?}", va.4, va.5, vb.4, vb.5)
                } else if va.6 != vb.6 || va.7 != vb.7 {
                    "hashes".to_string()
                } else {
                    format!("hunks {:?} -> {:?}", va.8.iter().map(|h| (h.2, h.3, h.0.len(), h.1.len())).collect::<Vec<_>>(), vb.8.iter().map(|h| (h.2, h.3, h.0.len(), h.1.len())).collect::<Vec<_>>())
                };
                return Verdict::Fail(format!("file patch {} changes across write+parse: {}; written form: {:?}", i + 1, what, esc(&w1[..w1.len().min(800)])));
            }
        }
        if w2 != w1 {
            return Verdict::Fail(format!("writing is not a fixed point: write(parse(w1)) != w1; w1 = {:?}, w2 = {:?}", esc(&w1[..w1.len().min(500)]), esc(&w2[..w2.len().min(500)])));
        }
        Verdict::Pass
    }
    fn known_signature(&self, case: &Case, msg: &str) -> Option<&'static str> {
        // R4: a hunkless git entry whose only extended headers are ones the writer does not emit
        // (copy from/to, a lone rename line) is written as a bare `diff --git` line and vanishes
        let Ok((p1, w1)) = inproc::parse_and_write(&case.data) else { return None };
        let is_bare = |f: &PFile| f.hunks.is_empty() && !f.rename && f.old_mode.is_none() && f.new_mode.is_none() && f.old_hash.is_none() && f.new_hash.is_none();
        if p1.iter().any(is_bare) {
            // exactly R4: apart from do-nothing entries (which may vanish, and - when the text before them
            // holds extended header lines that were garbage the first time - re-appear in different number)
            // everything survives the round trip
            if let Ok((p2, _)) = inproc::parse_and_write(&w1) {
                let rest: Vec<_> = p1.iter().filter(|f| !is_bare(f)).map(view).collect();
                let got: Vec<_> = p2.iter().filter(|f| !is_bare(f)).map(view).collect();
                if rest == got {
                    return Some("KF-K8-R4-bare-hunkless-git-entry-vanishes");
                }
            }
        }
        let _ = msg;
        None
    }
}
