//! CLI-level properties over generated quilt workspaces: C05, C13 (more in cli2.rs).

use crate::bytes::esc;
use crate::choose::Chooser;
use crate::engine::*;
use crate::inproc;
use crate::push::*;
use crate::ws::{self, Exit};
use crate::wsgen::*;
use serde::{Deserialize, Serialize};

#[derive(Clone, Debug, Serialize, Deserialize)]
pub struct CliCase {
    pub ws: WsCase,
    pub opts: PushOpts,
    /// number of patches recorded as applied before the invocation (tree = model state after them)
    #[serde(default)]
    pub prior: usize,
}

pub fn label_ws(ws: &WsCase, cx: &mut CaseCtx) {
    for f in &ws.feat {
        cx.label(f);
    }
    if let Some(j) = ws.fail_at {
        let n = ws.metas.len();
        cx.label(if j == 0 { "fail-first" } else if j + 1 == n { "fail-last" } else { "fail-middle" });
        for op in &ws.metas[j].ops {
            if let Some(r) = &op.fail_reason {
                cx.label(&format!("reason-{}", r));
            }
        }
    }
}

pub fn gen_goal(ch: &mut Chooser, ws: &WsCase) -> Goal {
    let n = ws.metas.len();
    match ch.weighted(&[6, 1, 2, 2]) {
        0 => Goal::All,
        1 => Goal::Next,
        // counts beyond the end of the series mean "all the rest", however large
        2 => Goal::Count(if ch.chance(1, 6) { *ch.pick(&[1000usize, 4294967296, 9223372036854775807, 18446744073709551615]) } else { ch.range(1, n + 1) }),
        _ => Goal::Name(ws.metas[ch.below(n)].name.clone()),
    }
}

/// What a push from `first` applied patches with this goal is expected to do.
pub struct Expect {
    pub requested: usize,
    pub applied: usize,
    pub stops_on_failure: bool,
    /// the push meets an I/O error (a target that is a directory): exit 1 and nothing at all is written
    pub hard_error: bool,
}

pub fn expectation(ws: &WsCase, opts: &PushOpts, first: usize) -> Expect {
    let names = ws.names();
    let requested = opts.requested(&names, first);
    let last = first + requested;
    match ws.fail_at {
        Some(j) if j >= first && j < last => {
            let hard = ws.metas[j].ops.iter().any(|o| o.fail_reason.as_deref() == Some("target-is-directory"));
            Expect { requested, applied: if hard { 0 } else { j - first }, stops_on_failure: true, hard_error: hard }
        }
        _ => Expect { requested, applied: requested, stops_on_failure: false, hard_error: false },
    }
}

pub const UNTERMINATED_APPLIED: &str = "applied-patches-without-final-newline";

pub struct C05;

pub fn check_c05_like(case: &CliCase, cx: &mut CaseCtx, check_rejects_content: bool) -> Verdict {
    let ws = &case.ws;
    label_ws(ws, cx);
    cx.label_if(case.opts.threads > 1, "threads>1");
    cx.label(&format!("backup-{}", if case.opts.backup.is_empty() { "default" } else { &case.opts.backup }));
    let root = cx.env.fresh_dir("ws-");
    let first = case.prior.min(ws.applicable());
    let mut spec = ws.spec.clone();
    if first > 0 {
        cx.label("prior-applied-state");
        spec.tree = ws.states[first].clone();
        spec.applied = Some(crate::bytes::B(ws.names()[..first].iter().map(|n| format!("{}\n", n)).collect::<String>().into_bytes()));
        if ws.feat.iter().any(|f| f == UNTERMINATED_APPLIED) {
            spec.applied.as_mut().unwrap().0.pop();
        }
    }
    spec.materialise(&root);
    let mut opts = case.opts.clone();
    if let Goal::Name(n) = &opts.goal {
        if ws.names().iter().position(|x| x == n).map_or(true, |i| i < first) {
            opts.goal = Goal::All;
        }
    }
    let case_opts = &opts;
    let obs = push(cx, &root, case_opts, &Default::default());
    ws::rm_rf(&root);
    if obs.out.exit == Exit::Timeout {
        return Verdict::Inconclusive("watchdog".into());
    }
    if let Some(c) = crash_or_timeout(&obs.out.exit) {
        return Verdict::Fail(format!("push crashed: {}; stderr: {}", c, ws::lossy(&obs.out.stderr)));
    }
    let exp = expectation(ws, case_opts, first);
    let names = ws.names();
    // non-trivial rule
    if let Some(j) = ws.fail_at {
        if exp.stops_on_failure {
            let ops = &ws.metas[j].ops;
            let clean = ops.iter().filter(|o| o.failing_hunks.is_empty()).count();
            if (ops.len() >= 2 && clean >= 1) || j + 1 < ws.metas.len() {
                cx.nontrivial = true;
            }
            if check_rejects_content {
                let mixed_files = ops.iter().any(|o| o.failing_hunks.is_empty()) && ops.iter().any(|o| !o.failing_hunks.is_empty());
                let mixed_hunks = ops.iter().any(|o| !o.failing_hunks.is_empty() && o.failing_hunks.len() < o.hunks.len());
                cx.nontrivial = mixed_files || mixed_hunks;
                cx.label_if(mixed_files, "files-with-different-outcomes");
                cx.label_if(mixed_hunks, "hunks-with-different-outcomes");
            }
        }
    }
    let want_exit = if exp.applied == exp.requested { 0 } else { 1 };
    if obs.out.exit != Exit::Code(want_exit) {
        return Verdict::Fail(format!(
            "exit status {:?}, expected {} (requested {} patches, {} can apply); stderr: {}",
            obs.out.exit,
            want_exit,
            exp.requested,
            exp.applied,
            ws::lossy(&obs.out.stderr)
        ));
    }
    let (rejects, files) = split_rejects(ws::user_files(&obs.snap));
    let want_tree = ws::tree_as_map(&ws.states[first + exp.applied]);
    if !check_rejects_content {
        if let Some(d) = ws::diff_maps(&want_tree, &files, true) {
            return Verdict::Fail(format!("tree is not the start tree with the first {} patches applied: {}", exp.applied, d));
        }
    }
    // applied-patches
    let got_applied: Vec<String> = obs.snap.get(&b".pc/applied-patches".to_vec()).map(|e| String::from_utf8_lossy(&e.bytes).lines().map(|s| s.to_string()).collect()).unwrap_or_default();
    if !check_rejects_content && got_applied != names[..first + exp.applied].to_vec() {
        return Verdict::Fail(format!(".pc/applied-patches lists {:?}, expected the first {} names {:?}", got_applied, first + exp.applied, &names[..first + exp.applied]));
    }
    // reject set
    let mut expected_rej: Vec<(String, &FileOp, bool)> = Vec::new();
    if exp.stops_on_failure && !exp.hard_error {
        let j = ws.fail_at.unwrap();
        // rejects are saved after the modified files and after emptied directories are removed: the reject
        // of a file exists iff its directory exists in the tree the applied patches leave behind
        let end = &ws.states[first + exp.applied];
        for op in &ws.metas[j].ops {
            if !op.failing_hunks.is_empty() {
                let d = match op.target.rfind('/') {
                    Some(i) => &op.target[..i],
                    None => "",
                };
                let dir_at_end = d.is_empty() || end.files.keys().any(|p| p.starts_with(&format!("{}/", d)));
                if dir_at_end {
                    expected_rej.push((format!("{}.rej", op.target), op, true));
                } else {
                    cx.label("reject-bypassed-directory-does-not-exist");
                }
            }
        }
    }
    for (p, _, _) in &expected_rej {
        if !rejects.contains_key(p) {
            return Verdict::Fail(format!("reject file {:?} is missing although its directory exists after the applied patches (rejects present: {:?})", p, rejects.keys().collect::<Vec<_>>()));
        }
    }
    for p in rejects.keys() {
        // a reject left by an earlier push stays as it is unless this push writes a new one
        if let Some(stale) = spec.tree.files.get(p) {
            if !expected_rej.iter().any(|(e, _, _)| e == p) && rejects[p].0 == stale.data.0 {
                continue;
            }
        }
        if !expected_rej.iter().any(|(e, _, _)| e == p) {
            return Verdict::Fail(format!("unexpected reject file {:?} (expected {:?})", p, expected_rej.iter().map(|x| &x.0).collect::<Vec<_>>()));
        }
    }
    if check_rejects_content {
        let mut seen: Vec<&String> = Vec::new();
        for (p, op, _) in &expected_rej {
            if seen.contains(&p) {
                continue;
            }
            seen.push(p);
            // all entries of the failing patch for this file, in patch order
            let entries: Vec<&FileOp> = expected_rej.iter().filter(|(q, _, _)| q == p).map(|(_, o, _)| *o).collect();
            let Some((data, _)) = rejects.get(p) else { continue };
            let rf = match read_rej(data) {
                Ok(r) => r,
                Err(e) => return Verdict::Fail(format!("reject {:?} is not a readable unified diff: {}; content {:?}", p, e, esc(&data[..data.len().min(400)]))),
            };
            let want: Vec<RejHunk> = entries.iter().flat_map(|op| op.failing_hunks.iter().map(|&i| rej_hunk_of(&op.hunks[i])).collect::<Vec<_>>()).collect();
            cx.label_if(entries.len() > 1, "several-failing-entries-for-one-file");
            if rf.hunks != want {
                return Verdict::Fail(format!(
                    "reject {:?} does not hold exactly the failed hunks {:?} of its file patch: found {} hunks {:?}, expected {:?}",
                    p,
                    op.failing_hunks,
                    rf.hunks.len(),
                    rf.hunks.iter().map(|h| (h.old_pos, h.new_pos, h.old.len(), h.new.len())).collect::<Vec<_>>(),
                    want.iter().map(|h| (h.old_pos, h.new_pos, h.old.len(), h.new.len())).collect::<Vec<_>>()
                ));
            }
            // it must also be accepted by the tool's own parser and name the file
            match inproc::parse_summary(data, 0) {
                inproc::Parsed::Ok(v) => {
                    if v.len() != entries.len() {
                        return Verdict::Fail(format!("reject {:?} parses to {} file patches, the failing patch has {} entries for the file", p, v.len(), entries.len()));
                    }
                    let names_ok = [&v[0].old_name, &v[0].new_name].iter().any(|n| n.as_ref().map_or(false, |n| {
                        // names are paths: "a//b" and "a/./b" spell "a/b"
                        let n = ws::norm_rel(&ws::name_str(n));
                        n == op.target || n == op.new_path || n == op.old_path
                    }));
                    if !names_ok {
                        return Verdict::Fail(format!("reject {:?} names {:?}/{:?}, not the patched file {:?}", p, v[0].old_name, v[0].new_name, op.target));
                    }
                }
                inproc::Parsed::Err(e) => return Verdict::Fail(format!("reject {:?} is rejected by the parser: {}", p, e)),
                inproc::Parsed::Panic(e) => return Verdict::Fail(format!("parser panicked on reject {:?}: {}", p, e)),
            }
        }
    }
    Verdict::Pass
}

pub fn build_cli_case(ch: &mut Chooser, cx: &mut CaseCtx, fail_chance: u32, with_goal: bool) -> CliCase {
    let thorough = cx.env.tier == Tier::Thorough;
    // names needing C quoting (rejects carry them quoted since the writer fix)
    let nasty_names = ch.chance(1, 4);
    let o = WsGenOpts { fail_chance, nasty_names, allow_misordered: true, second_failure: true, allow_hard_error: true, max_patches: if thorough { 12 } else { 6 }, ..Default::default() };
    let ws = gen_ws(ch, cx, &o);
    let mut opts = gen_opts(ch, true);
    if with_goal {
        opts.goal = gen_goal(ch, &ws);
    }
    let prior = if ch.chance(1, 4) { ch.below(ws.applicable() + 1) } else { 0 };
    let mut ws = ws;
    // an applied-patches file that was edited by hand: its last line has no newline
    if prior > 0 && ch.chance(1, 5) {
        ws.feat.push(UNTERMINATED_APPLIED.into());
    }
    // reject files left behind by an earlier failed push (longer than the new ones, not linked anywhere): they must
    // be replaced, not overwritten from the start
    if prior == 0 && ch.chance(1, 3) {
        if let Some(j) = ws.fail_at {
            let dir_always = |p: &str| match p.rfind('/') {
                None => true,
                Some(i) => ws.states.iter().all(|st| st.files.keys().any(|q| q.starts_with(&p[..=i]))),
            };
            let targets: Vec<String> = ws.metas[j].ops.iter().filter(|o| !o.failing_hunks.is_empty() && dir_always(&o.target)).map(|o| o.target.clone()).collect();
            for t in targets {
                let mut junk = format!("--- {}\n+++ {}\n@@ -1,400 +1,400 @@\n", t, t).into_bytes();
                for i in 0..400 {
                    junk.extend_from_slice(format!(" stale line {} of a reject left by an earlier push\n", i).as_bytes());
                }
                ws.spec.tree.files.insert(format!("{}.rej", t), crate::ws::TFile { data: crate::bytes::B(junk), mode: 0o644 });
                ws.feat.push("stale-reject-of-an-earlier-push".into());
            }
        }
    }
    // a hunk that fails as "misordered" at fuzz 0 may find another place once context is trimmed
    if ws.metas.iter().any(|m| m.ops.iter().any(|o| o.fail_reason.as_deref() == Some("misordered"))) {
        opts.fuzz = None;
    }
    CliCase { ws, opts, prior }
}

impl Prop for C05 {
    type Case = CliCase;
    fn id(&self) -> &'static str {
        "C05"
    }
    fn rule(&self) -> String {
        "quilt workspaces by construction: 1-8 files, 1-6 (thorough 12) patches of 1-4 file operations each (modify by random edit script with context 0-3, create incl. both-names form, delete, truncate, git rename +- edit, git mode change, second entry for a file), random header dialect per patch, -pN and -R in the series; a failing patch injected in 5 of 8 cases at any position in any non-empty subset of its files/hunks (no-match via a sentinel on a removed line, missing file, create over existing, delete mismatch, misordered hunks, target is a directory, renames that cannot be carried out: onto an existing file, of a missing file, of a file that already has the name, onto an empty file and undone; a second failing entry for the same file); names also spelled a//b, a/./b, ./a/b, /abs/a/b with -pN, and bare with blanks + TAB; patches that delete a whole directory tree; longer stale rejects of an earlier push; options: threads 1..16, --backup always/onfail/never/default, --backup-count, --mmap, verbosity, goal -a / none / N (up to 2^64-1) / <name>. Oracle: independent tree model T_k: exit 0 iff the requested range applied, tree (bytes+modes, rejects aside) == T_k, applied-patches == first k names, k == index of the first failing patch, rejects only for failing files of that patch, no crash. non-trivial = a failing patch inside the requested range that has >=2 file patches of which >=1 applies cleanly, or later patches exist; distinct = distinct case".into()
    }
    fn assumptions(&self) -> Vec<String> {
        vec![
            "shapes of open known findings and shapes whose outcome legitimately depends on save-phase timing with several threads (a directory emptied and re-populated in the same run) are not generated; counts in excluded_by_construction".into(),
            "a reject is expected exactly when its directory exists in the tree left by the applied patches (it is written after the files are saved and emptied directories removed)".into(),
            "directories are not compared (emptied directories are removed by the tool by design)".into(),
        ]
    }
    fn budget(&self, tier: Tier) -> (u32, usize) {
        (tier.pick(1500, 20000), 900)
    }
    fn build(&self, ch: &mut Chooser, cx: &mut CaseCtx) -> CliCase {
        build_cli_case(ch, cx, 5, true)
    }
    fn check(&self, case: &CliCase, cx: &mut CaseCtx) -> Verdict {
        check_c05_like(case, cx, false)
    }
}

pub struct C13;

impl Prop for C13 {
    type Case = CliCase;
    fn id(&self) -> &'static str {
        "C13"
    }
    fn rule(&self) -> String {
        "failing quilt workspaces by construction (see C05): failures in any subset of the failing patch's files and hunks, reasons no-match / missing file / create over existing / delete mismatch / misordered, two failing entries for one file (their hunks go into one reject, in patch order), longer stale rejects of an earlier push at the same paths, failing files spread over workers, threads 1..16. Oracle: the generator knows which hunks cannot apply; after the push the set of *.rej paths equals {<file>.rej for files of the failing patch with >=1 failing hunk}, each read with the harness's own unified-diff reader holds exactly the failed hunks in order with original old/new lines and start numbers, is accepted by the tool's parser and names the file; no other reject exists. non-trivial = the failing patch has file patches with different outcomes, or a file with hunks of different outcomes; distinct = distinct case".into()
    }
    fn assumptions(&self) -> Vec<String> {
        vec!["a reject is expected exactly when its directory exists in the tree left by the applied patches (the property says 'if its directory exists')".into(), "a stale reject at a path this push does not write must stay byte-identical".into()]
    }
    fn budget(&self, tier: Tier) -> (u32, usize) {
        (tier.pick(1500, 20000), 900)
    }
    fn build(&self, ch: &mut Chooser, cx: &mut CaseCtx) -> CliCase {
        let mut c = build_cli_case(ch, cx, 7, false);
        c
    }
    fn check(&self, case: &CliCase, cx: &mut CaseCtx) -> Verdict {
        check_c05_like(case, cx, true)
    }
}
