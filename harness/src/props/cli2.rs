//! C08 (quilt metadata), C09 (pushes compose), C10 (--dry-run), C14 (presentation/loader
//! options), C15 (files are replaced, never edited in place).

use crate::bytes::esc;
use crate::choose::Chooser;
use crate::engine::*;
use crate::props::cli::*;
use crate::push::*;
use crate::ws::{self, Exit, Snapshot};
use crate::wsgen::*;
use serde::{Deserialize, Serialize};
use std::collections::BTreeMap;

fn inconclusive_or_crash(obs: &Observed) -> Option<Verdict> {
    if obs.out.exit == Exit::Timeout {
        return Some(Verdict::Inconclusive("watchdog".into()));
    }
    None
}

fn failed_patch_name(stderr: &[u8]) -> Option<String> {
    let s = String::from_utf8_lossy(stderr);
    for l in s.lines() {
        if let Some(rest) = l.strip_prefix("Patch ") {
            if let Some(n) = rest.strip_suffix(" FAILED") {
                return Some(n.to_string());
            }
        }
    }
    None
}

// ---------------------------------------------------------------------------------- C08

pub struct C08;

#[derive(Clone, Debug, Serialize, Deserialize)]
pub struct C08Case {
    pub ws: WsCase,
    /// number of patches pushed by a first invocation with --backup never (prior applied state)
    pub prior: usize,
    pub opts: PushOpts,
}

impl Prop for C08 {
    type Case = C08Case;
    fn id(&self) -> &'static str {
        "C08"
    }
    fn rule(&self) -> String {
        "generated workspaces (see C05) with several patches on the same file, several entries per file, creates/deletes/renames/mode changes; optionally a first invocation pushing a prefix (prior applied state), then the invocation under test with --backup always|onfail|never|default x --backup-count all|0|1|2|default x threads x goal. Oracle (model): produced iff mode says so (never: none; onfail/default: only when the push stopped early); for each of the last N patches applied by this run and each file it touches (both names of a rename) .pc/<patch>/<file> has the bytes (and, if it existed, the mode) of the model state just before that patch, zero-length if absent; nothing else under .pc; restoring the backups newest-first (zero-length = remove) over the result recreates the model tree before the window; applied-patches == previous content + applied names in order. non-trivial = backups produced and (>=2 patches in the window touch one file, or N < patches applied, or a rename/create/delete in the window); distinct = distinct case".into()
    }
    fn assumptions(&self) -> Vec<String> {
        vec!["an absent file and a zero-length file are not distinguished after the simulated pop (quilt's backup format cannot)".into(), "modes of backups of files that did not exist are not compared".into()]
    }
    fn budget(&self, tier: Tier) -> (u32, usize) {
        (tier.pick(1200, 20000), 900)
    }
    fn build(&self, ch: &mut Chooser, cx: &mut CaseCtx) -> C08Case {
        let thorough = cx.env.tier == Tier::Thorough;
        let o = WsGenOpts { fail_chance: 3, max_patches: if thorough { 12 } else { 6 }, max_files: 4, ..Default::default() };
        let ws = gen_ws(ch, cx, &o);
        let mut opts = gen_opts(ch, true);
        opts.backup = ch.pick(&["always", "always", "always", "onfail", "", "never"]).to_string();
        opts.backup_count = ch.pick(&["", "all", "0", "1", "2", "1", "2", "3"]).to_string();
        opts.goal = gen_goal(ch, &ws);
        let prior = if ch.chance(1, 3) { ch.below(ws.applicable() + 1) } else { 0 };
        C08Case { ws, prior, opts }
    }
    fn check(&self, case: &C08Case, cx: &mut CaseCtx) -> Verdict {
        let ws = &case.ws;
        label_ws(ws, cx);
        let names = ws.names();
        let root = cx.env.fresh_dir("c08-");
        ws.spec.materialise(&root);
        let first = case.prior.min(ws.applicable());
        if first > 0 {
            cx.label("prior-applied-state");
            let p = PushOpts { backup: "never".into(), goal: Goal::Count(first), ..Default::default() };
            let o = push(cx, &root, &p, &Default::default());
            if o.out.exit != Exit::Code(0) {
                ws::rm_rf(&root);
                return Verdict::Fail(format!("prior push of {} clean patches failed: {:?} {}", first, o.out.exit, ws::lossy(&o.out.stderr)));
            }
        }
        let mut opts = case.opts.clone();
        if let Goal::Name(n) = &opts.goal {
            // a name that is already applied is C17's subject
            if names.iter().position(|x| x == n).map_or(true, |i| i < first) {
                opts.goal = Goal::All;
            }
        }
        let obs = push(cx, &root, &opts, &Default::default());
        ws::rm_rf(&root);
        if let Some(v) = inconclusive_or_crash(&obs) {
            return v;
        }
        if let Some(c) = crash_or_timeout(&obs.out.exit) {
            return Verdict::Fail(format!("push crashed: {}; stderr: {}", c, ws::lossy(&obs.out.stderr)));
        }
        let exp = expectation(ws, &opts, first);
        let k = exp.applied;
        // applied-patches
        let got_applied: Vec<String> = obs.snap.get(&b".pc/applied-patches".to_vec()).map(|e| String::from_utf8_lossy(&e.bytes).lines().map(|s| s.to_string()).collect()).unwrap_or_default();
        if got_applied != names[..first + k].to_vec() {
            return Verdict::Fail(format!(".pc/applied-patches lists {:?}, expected {:?}", got_applied, &names[..first + k]));
        }
        let produce = match opts.backup.as_str() {
            "always" => true,
            "never" => false,
            _ => exp.stops_on_failure,
        };
        let n_window = if !produce {
            0
        } else {
            match opts.backup_count.as_str() {
                "all" => k,
                "" => k.min(100),
                s => k.min(s.parse::<usize>().unwrap_or(0)),
            }
        };
        let win_start = first + k - n_window;
        // expected backups
        let mut want: BTreeMap<String, (Vec<u8>, Option<u32>)> = BTreeMap::new();
        let mut same_file_twice = false;
        let mut special = false;
        let mut seen_paths: Vec<&str> = vec![];
        for i in win_start..first + k {
            let before = &ws.states[i];
            for op in &ws.metas[i].ops {
                let mut paths = vec![op.target.as_str()];
                if op.kind == "rename" {
                    paths.push(op.new_path.as_str());
                }
                if op.kind != "modify" && op.kind != "mode" {
                    special = true;
                }
                for p in paths {
                    if seen_paths.contains(&p) {
                        same_file_twice = true;
                    }
                    seen_paths.push(p);
                    let key = format!(".pc/{}/{}", ws.metas[i].name, p);
                    match before.files.get(p) {
                        Some(f) => want.insert(key, (f.data.0.clone(), Some(f.mode))),
                        None => want.insert(key, (vec![], None)),
                    };
                }
            }
        }
        cx.label_if(produce, "backups-produced");
        cx.label_if(n_window < k && produce, "window<applied");
        cx.label_if(same_file_twice, "same-file-twice-in-window");
        if produce && n_window > 0 && (same_file_twice || n_window < k || special) {
            cx.nontrivial = true;
        }
        let got_pc: BTreeMap<String, (Vec<u8>, u32)> = ws::pc_files(&obs.snap).into_iter().filter(|(p, _)| p != ".pc/applied-patches").collect();
        for (p, (data, mode)) in &want {
            match got_pc.get(p) {
                None => return Verdict::Fail(format!("backup {:?} is missing (have {:?})", p, got_pc.keys().collect::<Vec<_>>())),
                Some((gd, gm)) => {
                    if gd != data {
                        return Verdict::Fail(format!("backup {:?} holds {:?}, but just before that patch the file was {:?}", p, esc(&gd[..gd.len().min(200)]), esc(&data[..data.len().min(200)])));
                    }
                    if let Some(m) = mode {
                        if gm != m {
                            return Verdict::Fail(format!("backup {:?} has mode {:o}, the file had {:o} before that patch", p, gm, m));
                        }
                    }
                }
            }
        }
        for p in got_pc.keys() {
            if !want.contains_key(p) {
                return Verdict::Fail(format!("unexpected file under .pc: {:?} (backup mode {:?}, count {:?}, window {}..{})", p, opts.backup, opts.backup_count, win_start, first + k));
            }
        }
        // simulated pop
        if n_window > 0 {
            let (_, mut tree) = split_rejects(ws::user_files(&obs.snap));
            for i in (win_start..first + k).rev() {
                let prefix = format!(".pc/{}/", ws.metas[i].name);
                for (p, (data, mode)) in &got_pc {
                    if let Some(rel) = p.strip_prefix(&prefix) {
                        if data.is_empty() {
                            tree.remove(rel);
                        } else {
                            tree.insert(rel.to_string(), (data.clone(), *mode));
                        }
                    }
                }
            }
            let strip_empty = |m: BTreeMap<String, (Vec<u8>, u32)>| -> BTreeMap<String, (Vec<u8>, u32)> { m.into_iter().filter(|(_, (d, _))| !d.is_empty()).collect() };
            let want_tree = strip_empty(ws::tree_as_map(&ws.states[win_start]));
            if let Some(d) = ws::diff_maps(&want_tree, &strip_empty(tree), true) {
                return Verdict::Fail(format!("restoring the backups newest-first does not recreate the tree before patch #{}: {}", win_start + 1, d));
            }
        }
        Verdict::Pass
    }
}

// ---------------------------------------------------------------------------------- C09

pub struct C09;

#[derive(Clone, Debug, Serialize, Deserialize)]
pub struct C09Case {
    pub ws: WsCase,
    /// final goal: number of patches from the start of the series
    pub goal: usize,
    /// the invocations of the split run
    pub invocations: Vec<PushOpts>,
    pub single: PushOpts,
    /// also push once more at the end (nothing left to do / repeat of the failure)
    pub extra_push: bool,
}

fn compare_runs(a: &Snapshot, b: &Snapshot, what: &str) -> Option<String> {
    if let Some(d) = ws::diff_maps(&ws::user_files(a), &ws::user_files(b), true) {
        return Some(format!("{}: tree/rejects differ: {}", what, d));
    }
    // "the same tree": directories too (an emptied directory is removed whichever invocation empties it)
    let dirs = |s: &Snapshot| -> Vec<String> { s.iter().filter(|(p, e)| e.kind == 'd' && !p.starts_with(b".pc") && !p.starts_with(b"patches")).map(|(p, _)| String::from_utf8_lossy(p).into_owned()).collect() };
    let (da, db) = (dirs(a), dirs(b));
    if da != db {
        let only_a: Vec<&String> = da.iter().filter(|d| !db.contains(d)).collect();
        let only_b: Vec<&String> = db.iter().filter(|d| !da.contains(d)).collect();
        return Some(format!("{}: directories differ: only in the first {:?}, only in the second {:?}", what, only_a, only_b));
    }
    let ap = |s: &Snapshot| s.get(&b".pc/applied-patches".to_vec()).map(|e| e.bytes.clone()).unwrap_or_default();
    if ap(a) != ap(b) {
        return Some(format!("{}: applied-patches differ: {:?} vs {:?}", what, esc(&ap(a)), esc(&ap(b))));
    }
    None
}

pub const KF_EMPTY_DIR: &str = "KF-C09-empty-start-directory-emptied-again";

impl Prop for C09 {
    type Case = C09Case;
    fn id(&self) -> &'static str {
        "C09"
    }
    fn rule(&self) -> String {
        "histories: a generated workspace (see C05; failing series included) and a way of cutting the push to goal g into 1-5 consecutive invocations, each written as push / push N / push <name> / push -a with its own thread count, backup setting, loader and verbosity; compared with ONE invocation to g on a fresh copy. Oracle (metamorphic): identical user tree (bytes+modes, rejects included, and the set of directories) and .pc/applied-patches; an extra push when everything requested is applied leaves the complete snapshot (bytes, modes, inodes, mtimes) unchanged and exits 0; an extra push after a failed push exits 1 again and leaves the same tree, rejects and applied-patches. non-trivial = >=2 invocations that each apply >=1 patch where a later one touches a file an earlier one wrote, created or deleted; distinct = distinct case".into()
    }
    fn assumptions(&self) -> Vec<String> {
        vec!["backup directories are not compared between differently split runs (they legitimately depend on the split)".into()]
    }
    fn known_signature(&self, case: &C09Case, msg: &str) -> Option<&'static str> {
        // exactly: some path is a file in one state of the series and a directory (a proper prefix of a file
        // name) in another, and what fails is the invocation that has to cross that change in one go
        let states = &case.ws.states;
        let kind_change = states.iter().any(|a| a.files.keys().any(|p| states.iter().any(|b| b.files.keys().any(|q| q.starts_with(&format!("{}/", p))))));
        if kind_change && (msg.contains("exits Code(1), expected 0") || msg.contains("Not a directory") || msg.contains("Is a directory")) {
            return Some("KF-C09-path-changes-between-file-and-directory");
        }
        // exactly: the start tree has an empty directory in which a patch creates a file that a later patch deletes,
        // and the two runs differ in that directory
        let created_then_deleted = |d: &String| {
            let pre = format!("{}/", d);
            states.iter().any(|st| st.files.keys().any(|k| k.starts_with(&pre))) && states.last().map_or(false, |st| !st.files.keys().any(|k| k.starts_with(&pre)))
                || (1..states.len()).any(|i| states[i - 1].files.keys().any(|k| k.starts_with(&pre)) && !states[i].files.keys().any(|k| k.starts_with(&pre)))
        };
        if msg.contains("directories differ") && case.ws.spec.dirs.iter().any(|d| !d.starts_with(".pc") && created_then_deleted(d)) {
            return Some(KF_EMPTY_DIR);
        }
        None
    }
    fn budget(&self, tier: Tier) -> (u32, usize) {
        (tier.pick(600, 10000), 900)
    }
    fn build(&self, ch: &mut Chooser, cx: &mut CaseCtx) -> C09Case {
        let thorough = cx.env.tier == Tier::Thorough;
        let o = WsGenOpts { fail_chance: 3, max_patches: if thorough { 12 } else { 6 }, max_files: 5, alt_name_chance: 2, allow_path_kind_change: true, ..Default::default() };
        let mut ws = gen_ws(ch, cx, &o);
        // directories that exist, empty, in the start tree where a patch is going to create a file (what happens to
        // them when a later patch deletes that file again must not depend on how the push is split)
        if ch.chance(1, 3) {
            let mut added = vec![];
            for m in &ws.metas {
                for op in &m.ops {
                    if op.kind == "create" && op.fail_reason.is_none() {
                        if let Some(i) = op.new_path.rfind('/') {
                            let dir = op.new_path[..i].to_string();
                            let exists = ws.states[0].files.keys().any(|k| k.starts_with(&format!("{}/", dir)) || k == &dir);
                            if !exists && !added.contains(&dir) {
                                added.push(dir);
                            }
                        }
                    }
                }
            }
            if !added.is_empty() {
                if !cx.feature(KF_EMPTY_DIR) {
                    cx.exclude(KF_EMPTY_DIR);
                } else {
                    ws.spec.dirs.extend(added);
                    ws.feat.push("empty-start-directory-where-a-patch-creates-a-file".into());
                }
            }
        }
        let n = ws.metas.len();
        let goal = if ch.chance(1, 2) { n } else { ch.range(1, n) };
        // cut points
        let ncuts = ch.below(goal.min(4));
        let mut cuts: Vec<usize> = (0..ncuts).map(|_| ch.range(1, goal)).collect();
        cuts.push(goal);
        cuts.sort();
        cuts.dedup();
        let mut invocations = Vec::new();
        let mut prev = 0;
        for &c in &cuts {
            let mut p = gen_opts(ch, true);
            let step = c - prev;
            p.goal = match ch.below(4) {
                0 if step == 1 => Goal::Next,
                1 => Goal::Name(ws.metas[c - 1].name.clone()),
                2 if c == n => Goal::All,
                _ => Goal::Count(step),
            };
            invocations.push(p);
            prev = c;
        }
        let mut single = gen_opts(ch, true);
        single.goal = if goal == n && ch.chance(1, 2) { Goal::All } else if ch.chance(1, 2) { Goal::Count(goal) } else { Goal::Name(ws.metas[goal - 1].name.clone()) };
        C09Case { ws, goal, invocations, single, extra_push: ch.chance(1, 2) }
    }
    fn check(&self, case: &C09Case, cx: &mut CaseCtx) -> Verdict {
        let ws = &case.ws;
        label_ws(ws, cx);
        cx.label(&format!("invocations-{}", case.invocations.len().min(4)));
        let names = ws.names();
        // single run
        let root_b = cx.env.fresh_dir("c09b-");
        ws.spec.materialise(&root_b);
        let ob = push(cx, &root_b, &case.single, &Default::default());
        ws::rm_rf(&root_b);
        if let Some(v) = inconclusive_or_crash(&ob) {
            return v;
        }
        // split run
        let root_a = cx.env.fresh_dir("c09a-");
        ws.spec.materialise(&root_a);
        let mut last: Option<Observed> = None;
        let mut applied_so_far = 0usize;
        let mut effective = 0;
        let mut touched_earlier: Vec<String> = vec![];
        let mut later_touches_earlier = false;
        for (ii, inv) in case.invocations.iter().enumerate() {
            // a --dry-run push in between (any goal) must not influence anything that follows
            if (case.goal + ii) % 3 == 0 {
                let mut dry = inv.clone();
                dry.dry_run = true;
                dry.goal = Goal::All;
                let o = push(cx, &root_a, &dry, &Default::default());
                cx.label("dry-run-interleaved");
                if let Some(c) = crash_or_timeout(&o.out.exit) {
                    ws::rm_rf(&root_a);
                    return Verdict::Fail(format!("interleaved --dry-run crashed: {}", c));
                }
            }
            let mut inv = inv.clone();
            // a by-name goal that is already applied (because an earlier invocation stopped at a failure and
            // ... cannot happen: names only move forward); but after a failure the same name is requested again: fine
            if let Goal::Name(nm) = &inv.goal {
                if names.iter().position(|x| x == nm).map_or(false, |i| i < applied_so_far) {
                    inv.goal = Goal::Next;
                }
            }
            let before = applied_so_far;
            let o = push(cx, &root_a, &inv, &Default::default());
            if o.out.exit == Exit::Timeout {
                ws::rm_rf(&root_a);
                return Verdict::Inconclusive("watchdog".into());
            }
            if let Some(c) = crash_or_timeout(&o.out.exit) {
                ws::rm_rf(&root_a);
                return Verdict::Fail(format!("invocation {:?} crashed: {}; stderr {}", inv.args(), c, ws::lossy(&o.out.stderr)));
            }
            applied_so_far = o.snap.get(&b".pc/applied-patches".to_vec()).map(|e| String::from_utf8_lossy(&e.bytes).lines().count()).unwrap_or(0);
            if applied_so_far > before {
                effective += 1;
                for i in before..applied_so_far.min(ws.metas.len()) {
                    for op in &ws.metas[i].ops {
                        if effective >= 2 && (touched_earlier.contains(&op.target) || touched_earlier.contains(&op.new_path)) {
                            later_touches_earlier = true;
                        }
                    }
                }
                for i in before..applied_so_far.min(ws.metas.len()) {
                    for op in &ws.metas[i].ops {
                        touched_earlier.push(op.target.clone());
                        touched_earlier.push(op.new_path.clone());
                    }
                }
            }
            last = Some(o);
        }
        let oa = last.unwrap();
        if effective >= 2 && later_touches_earlier {
            cx.nontrivial = true;
        }
        cx.label_if(effective >= 2, ">=2-effective-invocations");
        if let Some(d) = compare_runs(&oa.snap, &ob.snap, "split run vs single run") {
            ws::rm_rf(&root_a);
            return Verdict::Fail(format!("{} (split: {:?}; single: {:?})", d, case.invocations.iter().map(|i| i.args()[3..].join(" ")).collect::<Vec<_>>(), case.single.args()[3..].join(" ")));
        }
        let reached = case.goal.min(ws.applicable());
        let want_exit = if reached == case.goal { 0 } else { 1 };
        if ob.out.exit != Exit::Code(want_exit) {
            ws::rm_rf(&root_a);
            return Verdict::Fail(format!("single invocation to goal {} exits {:?}, expected {}", case.goal, ob.out.exit, want_exit));
        }
        if case.extra_push {
            // one more push of the same final goal
            ws::pin_mtimes(&root_a);
            let before = ws::snapshot(&root_a);
            let mut again = case.invocations.last().unwrap().clone();
            if reached == case.goal {
                // everything requested is applied: a push of "the rest up to the goal" = nothing
                again.goal = if case.goal == ws.metas.len() { Goal::All } else { Goal::Count(0) };
                again.backup = "never".into();
                cx.label("extra-push-nothing-to-do");
                let o = push(cx, &root_a, &again, &Default::default());
                ws::rm_rf(&root_a);
                if o.out.exit != Exit::Code(0) {
                    return Verdict::Fail(format!("push with nothing left to do exits {:?}; stderr {}", o.out.exit, ws::lossy(&o.out.stderr)));
                }
                if o.snap != before {
                    let d = first_snapshot_diff(&before, &o.snap);
                    return Verdict::Fail(format!("push with nothing left to do changed the working directory: {}", d));
                }
            } else {
                cx.label("extra-push-repeats-failure");
                again.goal = Goal::All;
                let o = push(cx, &root_a, &again, &Default::default());
                ws::rm_rf(&root_a);
                if o.out.exit != Exit::Code(1) {
                    return Verdict::Fail(format!("repeating a failed push exits {:?}", o.out.exit));
                }
                if let Some(d) = compare_runs(&o.snap, &before, "repeat of the failed push") {
                    return Verdict::Fail(d);
                }
                if failed_patch_name(&o.out.stderr) != Some(names[reached].clone()) {
                    return Verdict::Fail(format!("repeat of the failed push reports {:?} as failing, expected {:?}", failed_patch_name(&o.out.stderr), names[reached]));
                }
            }
        } else {
            ws::rm_rf(&root_a);
        }
        Verdict::Pass
    }
}

pub fn first_snapshot_diff(a: &Snapshot, b: &Snapshot) -> String {
    for (p, e) in a {
        match b.get(p) {
            None => return format!("{:?} disappeared", String::from_utf8_lossy(p)),
            Some(f) => {
                if e != f {
                    let mut what = vec![];
                    if e.bytes != f.bytes {
                        what.push("content");
                    }
                    if e.mode != f.mode {
                        what.push("mode");
                    }
                    if e.ino != f.ino {
                        what.push("inode");
                    }
                    if e.mtime_ns != f.mtime_ns {
                        what.push("mtime");
                    }
                    if e.nlink != f.nlink {
                        what.push("nlink");
                    }
                    return format!("{:?} changed ({})", String::from_utf8_lossy(p), what.join(", "));
                }
            }
        }
    }
    for p in b.keys() {
        if !a.contains_key(p) {
            return format!("{:?} appeared", String::from_utf8_lossy(p));
        }
    }
    "no difference".into()
}

// ---------------------------------------------------------------------------------- C10

pub struct C10;

impl Prop for C10 {
    type Case = CliCase;
    fn id(&self) -> &'static str {
        "C10"
    }
    fn rule(&self) -> String {
        "generated workspaces (see C05; failing series in 4 of 8 cases; optionally with prior applied state, stale .pc/<patch>/ directories of patches that are not applied and dangling symbolic links where a patch is going to create a file) run with --dry-run under all thread counts, backup settings, loaders, verbosities and goals. Oracle: the recursive snapshot of the working directory (path, kind, bytes, mode, inode, link count, mtime - all mtimes pinned to a past instant beforehand) is identical before and after; exit status and the patch named in 'Patch <name> FAILED' equal those of a real run of the same invocation on a copy. non-trivial = the real run writes something (modified files, and for failing series rejects/backups); distinct = distinct case".into()
    }
    fn assumptions(&self) -> Vec<String> {
        vec!["observation by snapshot (bytes, mode, inode, nlink, mtime of files and directories), not by syscall tracing: a write that restores all of these on the same inode would be invisible".into()]
    }
    fn budget(&self, tier: Tier) -> (u32, usize) {
        (tier.pick(1000, 15000), 900)
    }
    fn build(&self, ch: &mut Chooser, cx: &mut CaseCtx) -> CliCase {
        let mut c = build_cli_case(ch, cx, 4, true);
        c.opts.dry_run = true;
        c.opts.verbosity = ch.pick(&["-q", "", "-v", "-vv"]).to_string();
        // a patch file behind the failing patch that cannot be loaded: a parallel run (dry or real) loads everything
        // first and reports that, a single-threaded one stops at the failing patch - the dry run must predict either
        if let Some(j) = c.ws.fail_at {
            if j + 1 < c.ws.metas.len() && ch.chance(1, 5) {
                let k = ch.range(j + 1, c.ws.metas.len() - 1);
                let name = c.ws.metas[k].name.clone();
                if ch.chance(1, 2) {
                    c.ws.spec.patches.retain(|(nm, _)| nm != &name);
                } else {
                    for p in c.ws.spec.patches.iter_mut().filter(|(nm, _)| nm == &name) {
                        p.1 = crate::bytes::B::new("--- a/x\n+++ b/x\n@@ -1 +1 @@\n-a\n");
                    }
                }
                c.ws.feat.push("unloadable-patch-behind-the-failing-one".into());
            }
        }
        // what an earlier, undone push may have left behind: .pc/<patch>/ directories of patches that are not applied
        if ch.chance(1, 3) {
            for m in &c.ws.metas {
                if ch.chance(1, 2) {
                    c.ws.spec.dirs.push(format!(".pc/{}/stale-dir", m.name));
                }
            }
            c.ws.feat.push("stale-pc-directories".into());
        }
        // a dangling symbolic link where a patch is going to create a file
        if ch.chance(1, 4) {
            let mut k = 0;
            for m in &c.ws.metas {
                for op in &m.ops {
                    if op.kind == "create" && op.fail_reason.is_none() && !c.ws.states[0].files.contains_key(&op.new_path) && !c.ws.spec.symlinks.iter().any(|(p, _)| p == &op.new_path) && k < 2 {
                        c.ws.spec.symlinks.push((op.new_path.clone(), format!("dangling-target-{}", k)));
                        k += 1;
                    }
                }
            }
            if k > 0 {
                c.ws.feat.push("dangling-symlink-at-a-file-to-create".into());
            }
        }
        c
    }
    fn check(&self, case: &CliCase, cx: &mut CaseCtx) -> Verdict {
        let ws = &case.ws;
        label_ws(ws, cx);
        cx.label_if(case.opts.threads > 1, "threads>1");
        let root = cx.env.fresh_dir("c10-");
        let first = case.prior.min(ws.applicable());
        let mut spec = ws.spec.clone();
        if first > 0 {
            cx.label("prior-applied-state");
            spec.tree = ws.states[first].clone();
            spec.applied = Some(crate::bytes::B(ws.names()[..first].iter().map(|n| format!("{}\n", n)).collect::<String>().into_bytes()));
            if ws.feat.iter().any(|f| f == UNTERMINATED_APPLIED) {
                spec.applied.as_mut().unwrap().0.pop();
            }
        }
        spec.materialise(&root);
        // real run on a copy
        let copy = cx.env.fresh_dir("c10r-");
        ws::copy_tree(&root, &copy);
        let mut real = case.opts.clone();
        real.dry_run = false;
        let or = push(cx, &copy, &real, &Default::default());
        let before_real = {
            let t = cx.env.fresh_dir("c10s-");
            spec.materialise(&t);
            let s = ws::snapshot(&t);
            ws::rm_rf(&t);
            s
        };
        ws::rm_rf(&copy);
        ws::pin_mtimes(&root);
        let before = ws::snapshot(&root);
        let od = push(cx, &root, &case.opts, &Default::default());
        ws::rm_rf(&root);
        if od.out.exit == Exit::Timeout || or.out.exit == Exit::Timeout {
            return Verdict::Inconclusive("watchdog".into());
        }
        if let Some(c) = crash_or_timeout(&od.out.exit) {
            return Verdict::Fail(format!("dry run crashed: {}; stderr {}", c, ws::lossy(&od.out.stderr)));
        }
        let wrote = ws::files_of(&or.snap) != ws::files_of(&before_real);
        if wrote {
            cx.nontrivial = true;
        }
        cx.label_if(ws::files_of(&or.snap).keys().any(|k| k.ends_with(".rej")), "real-run-writes-rejects");
        cx.label_if(ws::files_of(&or.snap).keys().any(|k| k.starts_with(".pc/") && k != ".pc/applied-patches"), "real-run-writes-backups");
        if od.snap != before {
            return Verdict::Fail(format!("--dry-run changed the working directory: {} (args {:?})", first_snapshot_diff(&before, &od.snap), case.opts.args()));
        }
        if od.out.exit != or.out.exit {
            return Verdict::Fail(format!("--dry-run exits {:?} but the real run exits {:?}", od.out.exit, or.out.exit));
        }
        let (fd, fr) = (failed_patch_name(&od.out.stderr), failed_patch_name(&or.out.stderr));
        if fd != fr {
            return Verdict::Fail(format!("--dry-run reports {:?} as failing, the real run {:?}", fd, fr));
        }
        Verdict::Pass
    }
}

// ---------------------------------------------------------------------------------- C14

pub struct C14;

#[derive(Clone, Debug, Serialize, Deserialize)]
pub struct C14Case {
    pub ws: WsCase,
    pub base: PushOpts,
    /// option variants to compare with the base run (-q, default loader)
    pub variants: Vec<Vec<String>>,
    /// prior state: number of patches already applied (pushed by a first quiet invocation)
    pub prior: usize,
}

const VARIANT_OPTS: &[&[&str]] = &[
    &["--mmap"],
    &["-v"],
    &["-vv"],
    &[],
    &["--color", "always"],
    &["--stats"],
    &["-A", "multiapply"],
    &["--mmap", "-v", "--stats"],
    &["-vv", "--color", "always", "-A", "multiapply"],
    &["--mmap", "-A", "multiapply", "--stats"],
    &["-v", "-q"],
];

impl Prop for C14 {
    type Case = C14Case;
    fn id(&self) -> &'static str {
        "C14"
    }
    fn rule(&self) -> String {
        "generated workspaces (see C05) incl. zero-length source files, zero-length patch files, failing series and series with an unloadable patch behind the failing one, optionally with prior applied state and goal forms (-a, N, <name> incl. names that are already applied), each run once with `-q` and the default loader and then with 3 (thorough 6) option sets drawn from {--mmap, (default verbosity), -v, -vv, --color always, --stats, -A multiapply and combinations}. Oracle (differential): user tree (bytes+modes), .pc/**, rejects and exit status identical to the base run. non-trivial = the variant differs from the base in loader or verbosity class and the workspace has a failing patch or a zero-length file; distinct = distinct case".into()
    }
    fn assumptions(&self) -> Vec<String> {
        vec!["stdout/stderr are not compared (the options are allowed to change what is printed)".into()]
    }
    fn budget(&self, tier: Tier) -> (u32, usize) {
        (tier.pick(500, 8000), 900)
    }
    fn build(&self, ch: &mut Chooser, cx: &mut CaseCtx) -> C14Case {
        let thorough = cx.env.tier == Tier::Thorough;
        let o = WsGenOpts { fail_chance: 4, max_patches: if thorough { 10 } else { 5 }, allow_hard_error: true, second_failure: true, ..Default::default() };
        let mut ws = gen_ws(ch, cx, &o);
        // sometimes a zero-length patch file
        if ch.chance(1, 6) {
            let i = ch.below(ws.metas.len() + 1);
            ws.insert_empty_patch(i);
        }
        // sometimes a series without any patch (comments and blank lines only), no .pc yet
        let empty_series = ch.chance(1, 12);
        if empty_series {
            ws.spec.series = crate::bytes::B::new(*ch.pick(&["", "# nothing here\n", "\n\n# c\n"]));
            ws.metas.clear();
            ws.states.truncate(1);
            ws.fail_at = None;
            ws.feat.push("empty-series".into());
        }
        // a patch file behind the failing patch that cannot be loaded (a single-threaded run never looks at it, a
        // parallel run loads everything first): whatever the outcome is, the options must not change it
        if let Some(j) = ws.fail_at {
            if j + 1 < ws.metas.len() && ch.chance(1, 5) {
                let k = ch.range(j + 1, ws.metas.len() - 1);
                let name = ws.metas[k].name.clone();
                if ch.chance(1, 2) {
                    ws.spec.patches.retain(|(nm, _)| nm != &name);
                } else {
                    for p in ws.spec.patches.iter_mut().filter(|(nm, _)| nm == &name) {
                        p.1 = crate::bytes::B::new("--- a/x\n+++ b/x\n@@ -1 +1 @@\n-a\n");
                    }
                }
                ws.feat.push("unloadable-patch-behind-the-failing-one".into());
            }
        }
        let mut base = gen_opts(ch, true);
        base.verbosity = "-q".into();
        base.mmap = false;
        let n = ws.metas.len();
        let prior = if ch.chance(1, 3) { ch.below(ws.applicable() + 1) } else { 0 };
        base.goal = if n == 0 {
            if ch.chance(1, 2) {
                Goal::All
            } else {
                Goal::Next
            }
        } else {
            match ch.weighted(&[5, 2, 3]) {
                0 => Goal::All,
                1 => Goal::Count(ch.range(1, n)),
                _ => Goal::Name(ws.metas[ch.below(n)].name.clone()),
            }
        };
        let nv = if thorough { 6 } else { 3 };
        let variants = (0..nv).map(|_| VARIANT_OPTS[ch.below(VARIANT_OPTS.len())].iter().map(|s| s.to_string()).collect()).collect();
        C14Case { ws, base, variants, prior }
    }
    fn check(&self, case: &C14Case, cx: &mut CaseCtx) -> Verdict {
        let ws = &case.ws;
        label_ws(ws, cx);
        let zero_len_file = ws.spec.tree.files.values().any(|f| f.data.is_empty()) || ws.feat.iter().any(|f| f == "truncate" || f == "zero-length-patch-file");
        cx.label_if(zero_len_file, "zero-length-file");
        cx.label_if(case.prior > 0, "prior-applied-state");
        let run = |extra: &[String], cx: &mut CaseCtx| -> Observed {
            let root = cx.env.fresh_dir("c14-");
            ws.spec.materialise(&root);
            if case.prior > 0 {
                let p = PushOpts { backup: "never".into(), goal: Goal::Count(case.prior.min(ws.applicable())), ..Default::default() };
                let _ = push(cx, &root, &p, &Default::default());
            }
            let mut o = case.base.clone();
            o.verbosity = String::new();
            o.extra = extra.to_vec();
            let obs = push(cx, &root, &o, &Default::default());
            ws::rm_rf(&root);
            obs
        };
        let base = run(&["-q".to_string()], cx);
        if base.out.exit == Exit::Timeout {
            // does the default verbosity finish? then -q changes the outcome (it spins)
            let other = run(&[], cx);
            if base.out.cpu_s >= 10.0 && other.out.exit != Exit::Timeout {
                return Verdict::FailNoShrink(format!("the push spins with -q ({:.0} CPU-seconds, killed by the watchdog) but finishes with exit {:?} at default verbosity", base.out.cpu_s, other.out.exit));
            }
            return Verdict::Inconclusive("watchdog".into());
        }
        for v in &case.variants {
            let o = run(v, cx);
            if o.out.exit == Exit::Timeout {
                // the base run finished: an option set that makes the tool spin is a changed outcome
                if o.out.cpu_s >= 10.0 {
                    return Verdict::FailNoShrink(format!("options {:?} make the push spin ({:.0} CPU-seconds, killed by the watchdog) while it finishes with -q: exit {:?}", v, o.out.cpu_s, base.out.exit));
                }
                return Verdict::Inconclusive("watchdog".into());
            }
            let loader_or_verbosity = v.iter().any(|s| s == "--mmap" || s.starts_with("-v")) || !v.iter().any(|s| s == "-q");
            if loader_or_verbosity && (ws.fail_at.is_some() || zero_len_file) {
                cx.nontrivial = true;
            }
            if o.out.exit != base.out.exit {
                return Verdict::Fail(format!("options {:?} change the exit status: {:?} vs {:?} with -q; stderr: {}", v, o.out.exit, base.out.exit, ws::lossy(&o.out.stderr)));
            }
            if let Some(d) = ws::diff_maps(&ws::user_files(&base.snap), &ws::user_files(&o.snap), true) {
                return Verdict::Fail(format!("options {:?} change the resulting tree/rejects: {}", v, d));
            }
            if let Some(d) = ws::diff_maps(&ws::pc_files(&base.snap), &ws::pc_files(&o.snap), true) {
                return Verdict::Fail(format!("options {:?} change the .pc directory: {}", v, d));
            }
        }
        Verdict::Pass
    }
}

// ---------------------------------------------------------------------------------- C15

pub struct C15;

impl Prop for C15 {
    type Case = CliCase;
    fn id(&self) -> &'static str {
        "C15"
    }
    fn rule(&self) -> String {
        "generated workspaces (see C05: modify, truncate, delete, rename, mode change, rollback after a failing patch) whose files are hard-linked into a twin tree next to the workspace, pushed with both loaders, any thread count and goal. Oracle (invariant): every twin file keeps its bytes and mode; every workspace file whose bytes or mode changed is a different inode than its twin; every file not named by any patch of the requested range is still the same inode as its twin, link count 2, pinned mtime, same bytes. non-trivial = >=1 named and >=1 unnamed file exist and the run changed a named file (or re-saved it after a rollback); distinct = distinct case".into()
    }
    fn assumptions(&self) -> Vec<String> {
        vec!["inode identity is judged against the twin (which keeps the old inode alive), never by comparing inode numbers across an unlink".into()]
    }
    fn budget(&self, tier: Tier) -> (u32, usize) {
        (tier.pick(1200, 20000), 900)
    }
    fn build(&self, ch: &mut Chooser, cx: &mut CaseCtx) -> CliCase {
        let mut c = build_cli_case(ch, cx, 3, true);
        c.opts.mmap = ch.chance(1, 2);
        // stale quilt backup files of patches that are about to be pushed (e.g. left by an interrupted pop)
        if ch.chance(1, 4) {
            let mut stale = String::new();
            for m in c.ws.metas.iter().take(2) {
                for o in m.ops.iter().take(2) {
                    if o.fail_reason.as_deref() != Some("target-is-directory") {
                        stale.push_str(&format!(".pc/{}/{}\n", m.name, o.target));
                    }
                }
            }
            c.opts.backup = "always".into();
            c.opts.backup_count = "all".into();
            c.ws.feat.push(format!("stale-backups:{}", stale.replace('\n', ";")));
        }
        // stale reject files from an earlier attempt (they are hard-linked into the twin as well)
        if let Some(j) = c.ws.fail_at {
            let targets: Vec<String> = c.ws.metas[j].ops.iter().filter(|o| !o.failing_hunks.is_empty()).map(|o| o.target.clone()).collect();
            for t in targets {
                if ch.chance(1, 2) && c.ws.spec.tree.files.keys().any(|p| p.starts_with(&format!("{}/", t.rsplit_once('/').map_or("", |x| x.0))) || !t.contains('/')) {
                    c.ws.spec.tree.files.insert(format!("{}.rej", t), ws::TFile { data: crate::bytes::B::new("stale reject from an earlier attempt\n"), mode: 0o644 });
                    c.ws.feat.push("stale-reject-file".into());
                }
            }
        }
        c
    }
    fn check(&self, case: &CliCase, cx: &mut CaseCtx) -> Verdict {
        let ws = &case.ws;
        label_ws(ws, cx);
        cx.label_if(case.opts.mmap, "mmap");
        cx.label_if(case.opts.threads > 1, "threads>1");
        let base = cx.env.fresh_dir("c15-");
        let root = base.join("work");
        let twin = base.join("twin");
        ws.spec.materialise(&root);
        for f in &ws.feat {
            if let Some(list) = f.strip_prefix("stale-backups:") {
                for p in list.split(';').filter(|p| !p.is_empty()) {
                    ws::write_file(&root, p, b"stale backup\n");
                }
            }
        }
        // twin of the user files only (patches/series are inputs)
        ws::link_tree(&root, &twin);
        ws::pin_mtimes(&root);
        let twin_before = ws::snapshot(&twin);
        let before = ws::snapshot(&root);
        let obs = push(cx, &root, &case.opts, &Default::default());
        let twin_after = ws::snapshot(&twin);
        ws::rm_rf(&base);
        if obs.out.exit == Exit::Timeout {
            return Verdict::Inconclusive("watchdog".into());
        }
        if let Some(c) = crash_or_timeout(&obs.out.exit) {
            return Verdict::Fail(format!("push crashed: {}", c));
        }
        // twin intact (content and mode; link counts may drop when the workspace file was replaced)
        for (p, e) in &twin_before {
            if e.kind != 'f' {
                continue;
            }
            match twin_after.get(p) {
                None => return Verdict::Fail(format!("twin file {:?} disappeared", String::from_utf8_lossy(p))),
                Some(f) => {
                    if f.bytes != e.bytes || f.mode != e.mode {
                        return Verdict::Fail(format!("hard-linked twin {:?} was modified in place (content changed: {}, mode {:o} -> {:o})", String::from_utf8_lossy(p), f.bytes != e.bytes, e.mode, f.mode));
                    }
                }
            }
        }
        // named files of the requested range
        let names = ws.names();
        let requested = case.opts.requested(&names, 0);
        let mut named: Vec<String> = vec![];
        for m in &ws.metas[..requested] {
            for op in &m.ops {
                named.push(op.old_path.clone());
                named.push(op.new_path.clone());
                named.push(op.target.clone());
                named.push(format!("{}.orig", op.old_path));
                named.push(format!("{}.rej", op.target));
            }
        }
        let mut changed_named = false;
        let mut unnamed = 0;
        for (p, e) in &before {
            if e.kind != 'f' {
                continue;
            }
            let ps = String::from_utf8_lossy(p).into_owned();
            if ps == "series" || ps.starts_with("patches/") || ps.starts_with(".pc/") {
                // inputs: must not be touched either
                match obs.snap.get(p) {
                    Some(f) if f.ino == e.ino && f.bytes == e.bytes && f.mtime_ns == e.mtime_ns => {}
                    _ if ps.starts_with(".pc/") => {}
                    other => return Verdict::Fail(format!("input file {:?} was touched: {:?}", ps, other.map(|f| (f.ino, f.mtime_ns)))),
                }
                continue;
            }
            let is_named = named.iter().any(|n| n == &ps);
            match obs.snap.get(p) {
                None => {
                    if !is_named {
                        return Verdict::Fail(format!("file {:?}, which no patch of the pushed range names, was removed", ps));
                    }
                    changed_named = true;
                }
                Some(f) => {
                    if !is_named {
                        unnamed += 1;
                        if f.ino != e.ino || f.nlink != 2 || f.mtime_ns != e.mtime_ns || f.bytes != e.bytes || f.mode != e.mode {
                            return Verdict::Fail(format!("file {:?}, which no patch of the pushed range names, was touched (same inode: {}, nlink {}, mtime unchanged: {})", ps, f.ino == e.ino, f.nlink, f.mtime_ns == e.mtime_ns));
                        }
                    } else {
                        let changed = f.bytes != e.bytes || f.mode != e.mode;
                        if changed || f.ino != e.ino {
                            changed_named = true;
                        }
                        if changed && f.ino == e.ino {
                            return Verdict::Fail(format!("file {:?} was changed in place (same inode as before, still linked to its twin)", ps));
                        }
                    }
                }
            }
        }
        if changed_named && unnamed >= 1 {
            cx.nontrivial = true;
        }
        // second phase: the same push as an unprivileged user with one directory read-only, so that
        // unlinking a file in it fails while the file itself stays writable: the file must then NOT be
        // rewritten in place (its hard-linked twin keeps its content) and the push must fail
        if case.prior % 2 == 0 {
            if let Some(r) = readonly_dir_phase(ws, &case.opts, cx) {
                cx.label("unprivileged-readonly-dir-phase");
                if r.obs.out.exit == Exit::Timeout {
                    return Verdict::Inconclusive("watchdog".into());
                }
                for (p, e) in &r.twin_before {
                    if e.kind != 'f' {
                        continue;
                    }
                    if let Some(f) = r.twin_after.get(p) {
                        if f.bytes != e.bytes {
                            return Verdict::Fail(format!("unlink failed (read-only directory {:?}) and the file was then rewritten IN PLACE: hard-linked twin {:?} changed; exit {:?}", r.dir, String::from_utf8_lossy(p), r.obs.out.exit));
                        }
                    }
                }
                if r.obs.out.exit == Exit::Code(0) {
                    return Verdict::Fail(format!("file {:?} could not be replaced or removed (directory {:?} is read-only for the user) but the push exits 0", r.victim, r.dir));
                }
                if let Some(c) = crash_or_timeout(&r.obs.out.exit) {
                    return Verdict::Fail(format!("push crashed in the read-only directory phase: {}", c));
                }
            }
        }
        Verdict::Pass
    }
}

pub struct RoPhase {
    pub obs: Observed,
    pub twin_before: Snapshot,
    pub twin_after: Snapshot,
    pub victim: String,
    pub dir: String,
}

/// Push as an unprivileged user (uid 65534 owns the whole workspace) with the directory of one file
/// that the run has to replace or remove made read-only: unlink fails with EACCES while the file
/// itself stays writable.
pub fn readonly_dir_phase(ws: &WsCase, opts: &PushOpts, cx: &mut CaseCtx) -> Option<RoPhase> {
    let exp = expectation(ws, opts, 0);
    if exp.hard_error {
        return None;
    }
    // dropping privileges needs root; without it this phase is skipped
    if unsafe { libc::geteuid() } != 0 {
        return None;
    }
    let end = &ws.states[exp.applied];
    let victim: String = ws
        .spec
        .tree
        .files
        .iter()
        .filter(|(p, f)| p.contains('/') && !p.ends_with(".rej") && f.mode & 0o200 != 0 && end.files.get(*p).map_or(true, |g| g.data != f.data))
        .map(|(p, _)| p.clone())
        .next()?;
    let dir = victim[..victim.rfind('/').unwrap()].to_string();
    let base = cx.env.fresh_dir("rou-");
    let root = base.join("work");
    let twin = base.join("twin");
    ws.spec.materialise(&root);
    ws::link_tree(&root, &twin);
    ws::chown_tree(&base, 65534);
    let _ = std::fs::set_permissions(&base, std::os::unix::fs::PermissionsExt::from_mode(0o777));
    let dpath = root.join(ws::os(&dir));
    let _ = std::fs::set_permissions(&dpath, std::os::unix::fs::PermissionsExt::from_mode(0o555));
    let twin_before = ws::snapshot(&twin);
    let obs = push(cx, &root, opts, &ws::RunOpts { uid: Some(65534), ..Default::default() });
    let twin_after = ws::snapshot(&twin);
    let _ = std::fs::set_permissions(&dpath, std::os::unix::fs::PermissionsExt::from_mode(0o755));
    ws::rm_rf(&base);
    Some(RoPhase { obs, twin_before, twin_after, victim, dir })
}
