//! C16 (series options and file-name resolution), C17 (inconsistent state is refused
//! cleanly), C19 (names never reach outside the working tree).

use crate::bytes::B;
use crate::choose::Chooser;
use crate::engine::*;
use crate::props::cli::*;
use crate::props::cli2::first_snapshot_diff;
use crate::ptext::{c_quote, c_quote_octal};
use crate::push::*;
use crate::ws::{self, Exit, TFile, Tree, WsSpec};
use crate::wsgen::*;
use serde::{Deserialize, Serialize};

// ---------------------------------------------------------------------------------- C16

pub struct C16;

#[derive(Clone, Debug, Serialize, Deserialize)]
pub struct C16Case {
    pub ws: WsCase,
    pub threads: usize,
    /// where the split run cuts the series (number of patches in the first invocation)
    pub cut: usize,
    pub backup_count: String,
}

impl Prop for C16 {
    type Case = C16Case;
    fn id(&self) -> &'static str {
        "C16"
    }
    fn rule(&self) -> String {
        "generated workspaces whose series lines use -pN / -p N / --strip=N / --strip N (N 0..3 with matching name prefixes), -R / --reverse, comments, blank lines, names spelled a//b, a/./b, ./a/b and absolute names whose root is the first stripped component, and whose modify entries have differing ---/+++ names in 4 of 8 cases (also under -R): old name absent (never existed, or deleted/renamed away by an earlier patch of the same run, so it is still on disk while the run resolves names) with the new name being the file, or old name being the file (possibly created earlier in the run) with the new name absent or another existing file. Each workspace is pushed (--backup always) sequentially, with 2..16 threads, and split into two invocations. Oracle: tree == model T_n in all three modes (model: target = old name if it currently exists in the model state else new name, exactly N components stripped, direction per -R), the three runs agree on tree and applied-patches, and .pc/<patch>/<path> entries name the resolved path. non-trivial = strip != 1, or -R, or differing names whose resolution depends on an earlier patch of the same run; distinct = distinct case".into()
    }
    fn assumptions(&self) -> Vec<String> {
        vec!["-pN with N >= path depth is covered only by C11's no-crash oracle".into(), "differing names are combined with -R too: the statement makes the choice depend on the old name only, whatever the direction".into()]
    }
    fn budget(&self, tier: Tier) -> (u32, usize) {
        (tier.pick(250, 5000), 900)
    }
    fn build(&self, ch: &mut Chooser, cx: &mut CaseCtx) -> C16Case {
        let thorough = cx.env.tier == Tier::Thorough;
        let o = WsGenOpts { fail_chance: 0, max_patches: if thorough { 10 } else { 6 }, max_files: 5, alt_name_chance: 4, ..Default::default() };
        let ws = gen_ws(ch, cx, &o);
        let n = ws.metas.len();
        C16Case { ws, threads: *ch.pick(&[2usize, 2, 3, 4, 8, 16]), cut: ch.range(0, n), backup_count: ch.pick(&["all", "all", "1", "2"]).to_string() }
    }
    fn check(&self, case: &C16Case, cx: &mut CaseCtx) -> Verdict {
        let ws = &case.ws;
        label_ws(ws, cx);
        let n = ws.metas.len();
        let history_dep = ws.feat.iter().any(|f| f == "alt-old-gone-earlier") || (ws.feat.iter().any(|f| f.starts_with("alt-")) && n >= 2);
        if ws.feat.iter().any(|f| f == "strip!=1" || f == "reverse") || history_dep {
            cx.nontrivial = true;
        }
        let want = ws::tree_as_map(&ws.states[n]);
        let names = ws.names();
        let mut snaps = Vec::new();
        for mode in 0..3 {
            let root = cx.env.fresh_dir("c16-");
            ws.spec.materialise(&root);
            let mut o = PushOpts { backup: "always".into(), backup_count: case.backup_count.clone(), ..Default::default() };
            let obs = match mode {
                0 => push(cx, &root, &o, &Default::default()),
                1 => {
                    o.threads = case.threads;
                    push(cx, &root, &o, &Default::default())
                }
                _ => {
                    if case.cut > 0 {
                        let mut first = o.clone();
                        first.goal = Goal::Count(case.cut);
                        first.threads = case.threads;
                        let f = push(cx, &root, &first, &Default::default());
                        if f.out.exit != Exit::Code(0) {
                            ws::rm_rf(&root);
                            return Verdict::Fail(format!("first invocation of the split run ({} patches) failed: {:?} {}", case.cut, f.out.exit, ws::lossy(&f.out.stderr)));
                        }
                    }
                    push(cx, &root, &o, &Default::default())
                }
            };
            ws::rm_rf(&root);
            let what = ["sequential", "parallel", "split"][mode];
            if obs.out.exit == Exit::Timeout {
                return Verdict::Inconclusive("watchdog".into());
            }
            if obs.out.exit != Exit::Code(0) {
                return Verdict::Fail(format!("{} run: exit {:?}, expected 0; stderr: {}", what, obs.out.exit, ws::lossy(&obs.out.stderr)));
            }
            let (rej, files) = split_rejects(ws::user_files(&obs.snap));
            if !rej.is_empty() {
                return Verdict::Fail(format!("{} run: unexpected rejects {:?}", what, rej.keys().collect::<Vec<_>>()));
            }
            if let Some(d) = ws::diff_maps(&want, &files, true) {
                return Verdict::Fail(format!("{} run: tree differs from the model: {}", what, d));
            }
            let got_applied: Vec<String> = obs.snap.get(&b".pc/applied-patches".to_vec()).map(|e| String::from_utf8_lossy(&e.bytes).lines().map(|s| s.to_string()).collect()).unwrap_or_default();
            if got_applied != names {
                return Verdict::Fail(format!("{} run: applied-patches {:?}", what, got_applied));
            }
            // backup entries name the resolved path (for the patches in the last invocation's window)
            if mode < 2 {
                let win = match case.backup_count.as_str() {
                    "all" => n,
                    s => s.parse::<usize>().unwrap_or(n).min(n),
                };
                for i in (n - win)..n {
                    for op in &ws.metas[i].ops {
                        let key = format!(".pc/{}/{}", ws.metas[i].name, op.target);
                        if !obs.snap.contains_key(key.as_bytes()) {
                            return Verdict::Fail(format!("{} run: no backup entry {:?} for the resolved path (have {:?})", what, key, ws::pc_files(&obs.snap).keys().filter(|k| k.contains(&ws.metas[i].name)).collect::<Vec<_>>()));
                        }
                        // the unresolved alternative must not have been backed up as if it had been patched
                        for alt in [&op.old_path, &op.new_path] {
                            if alt != &op.target && op.kind != "rename" {
                                let k2 = format!(".pc/{}/{}", ws.metas[i].name, alt);
                                if obs.snap.contains_key(k2.as_bytes()) && !ws.metas[i].ops.iter().any(|o2| &o2.target == alt || (o2.kind == "rename" && &o2.new_path == alt)) {
                                    return Verdict::Fail(format!("{} run: backup entry {:?} for a name that was not the one to patch", what, k2));
                                }
                            }
                        }
                    }
                }
            }
            snaps.push(obs.snap);
        }
        Verdict::Pass
    }
}

// ---------------------------------------------------------------------------------- C17

pub struct C17;

#[derive(Clone, Debug, Serialize, Deserialize)]
pub struct C17Case {
    pub ws: WsCase,
    /// what was made inconsistent
    pub kind: String,
    pub opts: PushOpts,
}

const BROKEN_PATCHES: &[(&str, &[u8])] = &[
    ("truncated-hunk", b"--- a/f\n+++ b/f\n@@ -1,3 +1,3 @@\n a\n-b\n"),
    ("bad-hunk-header", b"--- a/f\n+++ b/f\n@@ -1,x +1,3 @@\n a\n"),
    ("bad-line-in-hunk", b"--- a/f\n+++ b/f\n@@ -1,3 +1,3 @@\n a\n?what\n c\n"),
    ("git-binary", b"diff --git a/img b/img\nindex 123..456 100644\nGIT binary patch\nliteral 3\nabc\n"),
    ("no-filename", b"--- /dev/null\n+++ /dev/null\n@@ -1 +1 @@\n-a\n+b\n"),
    ("no-final-newline-in-header", b"--- a/f\n+++ b/f"),
    ("rename-to-devnull", b"diff --git a/f b/g\nsimilarity index 90%\nrename from f\nrename to g\n--- a/f\n+++ /dev/null\n@@ -1 +0,0 @@\n-a\n"),
    ("rename-from-devnull", b"diff --git a/f b/g\nrename from f\nrename to g\n--- /dev/null\n+++ b/g\n@@ -0,0 +1 @@\n+a\n"),
    // the header promises fewer lines than the body has, and the surplus line is a context line
    ("new-count-too-small", b"--- a/f\n+++ b/f\n@@ -1,3 +1,2 @@\n alpha\n-beta\n+BETA\n gamma\n"),
    ("old-count-too-small", b"--- a/f\n+++ b/f\n@@ -1,2 +1,3 @@\n alpha\n-beta\n+BETA\n gamma\n"),
];

impl Prop for C17 {
    type Case = C17Case;
    fn id(&self) -> &'static str {
        "C17"
    }
    fn rule(&self) -> String {
        "a generated, cleanly applying workspace is put into the state 'm patches applied' (tree = model T_m) and then made inconsistent in one way: .pc/applied-patches with one entry changed / made unreadable (an unknown option behind it, bytes that are not UTF-8) / two entries swapped / longer than the series (extra names, or the series truncated) ; a goal naming an unknown patch or an already applied one; a patch file of the requested range missing, being a directory (also with --mmap) or unparseable (truncated hunk, bad hunk header, bad line in hunk, GIT binary patch, no file name) at any position with all earlier patches applying cleanly; threads 1..16, all verbosities, both loaders. Oracle: exit status exactly 1, something on stderr, no crash, and the complete snapshot (bytes, modes, inodes, pinned mtimes, no new entries) of the working directory unchanged. non-trivial = the inconsistency is not at position 0 (something would have been applied before it) or there is prior applied state; distinct = distinct case".into()
    }
    fn assumptions(&self) -> Vec<String> {
        vec!["blank lines in applied-patches are accepted by the tool and are not an inconsistency (lines starting with # are names since fix F25; the generator puts neither into the file)".into()]
    }
    fn budget(&self, tier: Tier) -> (u32, usize) {
        (tier.pick(1200, 20000), 900)
    }
    fn build(&self, ch: &mut Chooser, cx: &mut CaseCtx) -> C17Case {
        let o = WsGenOpts { fail_chance: 0, max_patches: 6, max_files: 5, ..Default::default() };
        let mut ws = gen_ws(ch, cx, &o);
        let n = ws.metas.len();
        let names = ws.names();
        let mut opts = gen_opts(ch, true);
        opts.verbosity = ch.pick(&["-q", "", "-v", "-vv"]).to_string();
        let m = ch.below(n + 1);
        let kind_idx = ch.weighted(&[2, 2, 3, 2, 2, 4]);
        let mut applied: Vec<String> = names[..m].to_vec();
        // bytes put behind one entry / a line that is no text at all
        let mut unreadable: Option<(usize, Vec<u8>)> = None;
        let kind: String;
        let set_state = |ws: &mut WsCase, m: usize| {
            ws.spec.tree = ws.states[m].clone();
        };
        match kind_idx {
            0 if m >= 1 && ch.chance(1, 3) => {
                // an entry the tool cannot read at all: an option it does not know, or bytes that are no text
                let i = ch.below(m);
                unreadable = Some((i, ch.pick(&[&b" -x"[..], &b" --frobnicate"[..], &b"\xff\xfe"[..], &b"\n\xc3\x28"[..]]).to_vec()));
                kind = "applied-entry-unreadable".into();
                set_state(&mut ws, m);
            }
            0 if m >= 1 => {
                let i = ch.below(m);
                applied[i] = if ch.chance(1, 2) { "not-in-series.patch".into() } else { names[(i + 1) % n].clone() + "x" };
                kind = "applied-entry-changed".into();
                set_state(&mut ws, m);
            }
            1 if m >= 2 => {
                let i = ch.below(m - 1);
                applied.swap(i, i + 1);
                kind = "applied-reordered".into();
                set_state(&mut ws, m);
            }
            2 => {
                // longer than series
                applied = names.clone();
                let extra = ch.range(1, 3);
                for k in 0..extra {
                    applied.push(format!("extra-{}.patch", k));
                }
                if ch.chance(1, 2) && n >= 2 {
                    // or: the series was shortened after patches had been applied
                    let keep = ch.range(1, n - 1);
                    let text: String = names[..keep].iter().map(|s| format!("{}\n", s)).collect();
                    ws.spec.series = B(text.into_bytes());
                    applied = names.clone();
                }
                kind = "applied-longer-than-series".into();
                set_state(&mut ws, n);
                opts.goal = if ch.chance(1, 2) { Goal::All } else { Goal::Next };
            }
            3 => {
                kind = "goal-unknown".into();
                set_state(&mut ws, m);
                opts.goal = Goal::Name("no-such.patch".into());
            }
            4 if m >= 1 => {
                kind = "goal-already-applied".into();
                set_state(&mut ws, m);
                opts.goal = Goal::Name(names[ch.below(m)].clone());
            }
            _ => {
                // broken or missing patch at position i >= m
                let m2 = m.min(n - 1);
                applied = names[..m2].to_vec();
                set_state(&mut ws, m2);
                let i = ch.range(m2, n - 1);
                let which = ch.below(BROKEN_PATCHES.len() + 4);
                if which == BROKEN_PATCHES.len() + 3 {
                    // the series names something that is not a file: it can be opened but neither read nor mapped
                    ws.spec.patches.retain(|(nm, _)| nm != &names[i]);
                    ws.spec.dirs.push(format!("patches/{}", names[i]));
                    if ch.chance(1, 2) {
                        opts.mmap = true;
                    }
                    kind = format!("patch-is-a-directory@{}", i - m2);
                } else if which > BROKEN_PATCHES.len() {
                    // the real patch, cut off inside the body of its last hunk
                    let mut done = false;
                    for p in ws.spec.patches.iter_mut() {
                        if p.0 == names[i] {
                            let text = p.1 .0.clone();
                            // start of the last hunk header line
                            let mut last_hdr = None;
                            let mut last_body_end = 0;
                            let mut pos = 0;
                            // lines still owed to the current hunk (old side, new side)
                            let (mut oc, mut nc) = (0usize, 0usize);
                            for l in crate::bytes::split_lines(&text) {
                                if oc == 0 && nc == 0 && l.starts_with(b"@@ -") {
                                    last_hdr = Some((pos, pos + l.len()));
                                    let hs = String::from_utf8_lossy(&l).into_owned();
                                    let mut it = hs.split(' ');
                                    let cnt = |t: Option<&str>| -> usize { t.and_then(|t| t[1..].split(',').nth(1).map(|c| c.parse().unwrap_or(1))).unwrap_or(1) };
                                    it.next();
                                    oc = cnt(it.next());
                                    nc = cnt(it.next());
                                } else if (oc > 0 || nc > 0) && !l.starts_with(b"\\") {
                                    match l.first() {
                                        Some(b'-') => oc = oc.saturating_sub(1),
                                        Some(b'+') => nc = nc.saturating_sub(1),
                                        _ => {
                                            oc = oc.saturating_sub(1);
                                            nc = nc.saturating_sub(1);
                                        }
                                    }
                                    last_body_end = pos + l.len();
                                }
                                pos += l.len();
                            }
                            if let Some((_, hdr_end)) = last_hdr {
                                // the cut must leave the last body line incomplete (at least its newline missing)
                                if last_body_end > hdr_end + 2 {
                                    let cut = ch.range(hdr_end + 1, last_body_end - 1);
                                    p.1 = B(text[..cut].to_vec());
                                    done = true;
                                }
                            }
                        }
                    }
                    let nfiles = ws.metas[i].ops.len();
                    kind = if done { format!("patch-cut-inside-last-hunk{}@{}", if nfiles >= 2 { "-multifile" } else { "" }, i - m2) } else {
                        ws.spec.patches.retain(|(nm, _)| nm != &names[i]);
                        format!("patch-missing@{}", i - m2)
                    };
                } else if which == BROKEN_PATCHES.len() {
                    ws.spec.patches.retain(|(nm, _)| nm != &names[i]);
                    kind = format!("patch-missing@{}", i - m2);
                } else {
                    for p in ws.spec.patches.iter_mut() {
                        if p.0 == names[i] {
                            p.1 = B::new(BROKEN_PATCHES[which].1);
                        }
                    }
                    kind = format!("patch-{}@{}", BROKEN_PATCHES[which].0, i - m2);
                }
                opts.goal = match ch.below(3) {
                    0 => Goal::All,
                    1 => Goal::Count(i - m2 + 1),
                    _ => Goal::Name(names[i].clone()),
                };
            }
        }
        if !applied.is_empty() || ch.chance(1, 2) {
            let mut t: String = applied.iter().map(|s| format!("{}\n", s)).collect();
            if applied.is_empty() {
                t.clear();
            }
            ws.spec.applied = Some(B(t.into_bytes()));
        }
        if let Some((i, junk)) = unreadable {
            let mut t: Vec<u8> = Vec::new();
            for (k, a) in applied.iter().enumerate() {
                t.extend_from_slice(a.as_bytes());
                if k == i {
                    t.extend_from_slice(&junk);
                }
                t.push(b'\n');
            }
            ws.spec.applied = Some(B(t));
        }
        C17Case { ws, kind, opts }
    }
    fn check(&self, case: &C17Case, cx: &mut CaseCtx) -> Verdict {
        cx.label(&format!("kind-{}", case.kind.split('@').next().unwrap_or("")));
        cx.label_if(case.opts.threads > 1, "threads>1");
        let pos0 = case.kind.ends_with("@0");
        let prior = case.ws.spec.applied.as_ref().map_or(false, |a| !a.is_empty());
        if !pos0 || prior {
            cx.nontrivial = true;
        }
        cx.label_if(prior, "prior-applied-state");
        let root = cx.env.fresh_dir("c17-");
        case.ws.spec.materialise(&root);
        ws::pin_mtimes(&root);
        let before = ws::snapshot(&root);
        let obs = push(cx, &root, &case.opts, &Default::default());
        ws::rm_rf(&root);
        if obs.out.exit == Exit::Timeout {
            return Verdict::Inconclusive("watchdog".into());
        }
        if obs.out.exit != Exit::Code(1) {
            return Verdict::Fail(format!("inconsistency '{}' with args {:?}: exit {:?}, expected 1; stderr: {}", case.kind, &case.opts.args()[3..], obs.out.exit, ws::lossy(&obs.out.stderr)));
        }
        if obs.out.stderr.iter().all(|c| c.is_ascii_whitespace()) {
            return Verdict::Fail(format!("inconsistency '{}': exit 1 but no message on stderr", case.kind));
        }
        if obs.snap != before {
            return Verdict::Fail(format!("inconsistency '{}' with args {:?}: refused, but the working directory changed: {}", case.kind, &case.opts.args()[3..], first_snapshot_diff(&before, &obs.snap)));
        }
        Verdict::Pass
    }
}

// ---------------------------------------------------------------------------------- C19

pub struct C19;

#[derive(Clone, Debug, Serialize, Deserialize)]
pub struct C19Case {
    /// name as it appears after "--- " (already prefixed/quoted)
    pub minus: B,
    pub plus: B,
    /// optional `diff --git` names and extended headers
    pub git: Option<(B, B)>,
    pub rename: bool,
    pub strip: usize,
    /// create | modify | delete | rename
    pub kind: String,
    /// the names after stripping, as the harness computes them (lexically)
    pub stripped_old: String,
    pub stripped_new: String,
    pub threads: usize,
    /// does a stripped name that is used escape the tree (absolute or leaves lexically)?
    pub escapes: bool,
    /// a good patch before the bad one?
    pub good_first: bool,
    /// second family: an ordinary workspace pushed with -d from another directory full of decoys
    #[serde(default)]
    pub launch: Option<Launch>,
}

#[derive(Clone, Debug, Serialize, Deserialize)]
pub struct Launch {
    pub ws: WsCase,
    pub opts: PushOpts,
    /// -d gets an absolute path (else a relative one leading out of the launch directory)
    pub abs: bool,
    /// directories (relative to the launch directory) named like directories of the workspace
    pub decoy_dirs: Vec<String>,
    /// files named like files of the workspace
    pub decoy_files: Vec<String>,
    /// a directory in the way of the quilt backup `.pc/<patch>/<path>` (saving it fails), and a decoy file of
    /// the same relative name in the launch directory
    #[serde(default)]
    pub backup_obstacle: Option<(String, String)>,
    /// dangling symbolic links at `<file>.rej` of files that are going to get a reject, pointing outside
    #[serde(default)]
    pub rej_links: Vec<String>,
}

fn build_launch(ch: &mut Chooser, cx: &mut CaseCtx) -> Launch {
    let o = WsGenOpts { fail_chance: 2, max_patches: 4, max_files: 6, max_lines: 10, ..Default::default() };
    let ws = gen_ws(ch, cx, &o);
    let mut opts = gen_opts(ch, true);
    opts.via_d = false;
    opts.mmap = false;
    let mut files: Vec<String> = Vec::new();
    for st in &ws.states {
        for p in st.files.keys() {
            if !files.contains(p) {
                files.push(p.clone());
            }
        }
    }
    for m in &ws.metas {
        for op in &m.ops {
            for p in [&op.old_path, &op.new_path] {
                if !files.contains(p) {
                    files.push(p.clone());
                }
            }
        }
    }
    let mut dirs: Vec<String> = Vec::new();
    for f in &files {
        let mut d = f.as_str();
        while let Some(i) = d.rfind('/') {
            d = &d[..i];
            if !dirs.iter().any(|x| x == d) {
                dirs.push(d.to_string());
            }
        }
    }
    dirs.sort();
    files.sort();
    let decoy_dirs: Vec<String> = dirs.iter().filter(|_| ch.chance(1, 2)).cloned().collect();
    let decoy_files: Vec<String> = files.iter().filter(|f| ch.chance(1, 4) && !decoy_dirs.iter().any(|d| d == *f || d.starts_with(&format!("{}/", f)))).cloned().collect();
    let mut backup_obstacle = None;
    if ch.chance(1, 4) {
        let cands: Vec<(String, String)> = ws.metas.iter().take(ws.applicable()).flat_map(|m| m.ops.iter().filter(|o| o.kind == "modify").map(move |o| (m.name.clone(), o.target.clone()))).collect();
        if !cands.is_empty() {
            backup_obstacle = Some(cands[ch.below(cands.len())].clone());
            opts.backup = "always".into();
            opts.backup_count = "all".into();
        }
    }
    let mut rej_links = Vec::new();
    if let Some(j) = ws.fail_at {
        if ch.chance(1, 2) {
            rej_links = ws.metas[j].ops.iter().filter(|o| !o.failing_hunks.is_empty()).map(|o| o.target.clone()).collect();
        }
    }
    Launch { ws, opts, abs: ch.chance(1, 2), decoy_dirs, decoy_files, backup_obstacle, rej_links }
}

fn check_launch(l: &Launch, cx: &mut CaseCtx) -> Verdict {
    cx.label("family-launch-with-d-from-a-decoy-directory");
    label_ws(&l.ws, cx);
    cx.label_if(l.abs, "d-absolute");
    cx.label_if(!l.decoy_dirs.is_empty(), "decoy-directories");
    cx.label_if(!l.decoy_files.is_empty(), "decoy-files");
    let removes_dir = l.ws.feat.iter().any(|f| f == "delete" || f == "rename");
    let makes_dir = l.ws.feat.iter().any(|f| f == "create-in-new-dir");
    cx.label_if(removes_dir, "may-empty-a-directory");
    if (removes_dir || makes_dir) && !l.decoy_dirs.is_empty() {
        cx.nontrivial = true;
    }
    let base = cx.env.fresh_dir("c19l-");
    let launch = base.join("launch");
    let wsroot = base.join("work/ws");
    l.ws.spec.materialise(&wsroot);
    std::fs::create_dir_all(&launch).expect("launch dir");
    for d in &l.decoy_dirs {
        std::fs::create_dir_all(launch.join(d)).ok();
    }
    for f in &l.decoy_files {
        let p = launch.join(f);
        if let Some(par) = p.parent() {
            std::fs::create_dir_all(par).ok();
        }
        if !p.exists() {
            std::fs::write(&p, VICTIM).ok();
        }
    }
    if let Some((patch, path)) = &l.backup_obstacle {
        cx.label("backup-cannot-be-saved-decoy-of-the-same-name");
        let rel = format!(".pc/{}/{}", patch, path);
        std::fs::create_dir_all(wsroot.join(&rel)).ok();
        let decoy = launch.join(&rel);
        if let Some(par) = decoy.parent() {
            std::fs::create_dir_all(par).ok();
        }
        std::fs::write(&decoy, VICTIM).ok();
    }
    for (k, t) in l.rej_links.iter().enumerate() {
        cx.label("dangling-link-at-the-reject-path");
        let link = wsroot.join(format!("{}.rej", t));
        if link.parent().map_or(false, |p| p.is_dir()) {
            let _ = std::os::unix::fs::symlink(base.join(format!("outside-victim-{}", k)), &link);
        }
    }
    let outside = |b: &std::path::Path| -> ws::Snapshot { ws::snapshot(b).into_iter().filter(|(p, _)| !p.starts_with(b"work/ws/") && p.as_slice() != b"work/ws").collect() };
    ws::pin_mtimes(&base);
    let before = outside(&base);
    let mut a = l.opts.args();
    a.insert(1, if l.abs { wsroot.to_string_lossy().into_owned() } else { "../work/ws".to_string() });
    a.insert(1, "-d".to_string());
    let out = ws::run_bin(&cx.env.bin, &launch, &a, &Default::default(), &cx.env.scratch);
    cx.evals += 1;
    let after = outside(&base);
    ws::rm_rf(&base);
    if out.exit == Exit::Timeout {
        return Verdict::Inconclusive("watchdog".into());
    }
    if let Some(c) = crash_or_timeout(&out.exit) {
        return Verdict::Fail(format!("push crashed: {}; stderr {}", c, ws::lossy(&out.stderr)));
    }
    if after != before {
        return Verdict::Fail(format!("push -d <workspace> started in another directory touched something OUTSIDE the workspace: {} (args {:?})", first_snapshot_diff(&before, &after), a));
    }
    Verdict::Pass
}

const VICTIM: &[u8] = b"victim line 1\nvictim line 2\nvictim line 3\n";

fn lexical_escape(name: &str) -> bool {
    if name.starts_with('/') {
        return true;
    }
    let mut depth: i64 = 0;
    for c in name.split('/') {
        match c {
            "" | "." => {}
            ".." => {
                depth -= 1;
                if depth < 0 {
                    return true;
                }
            }
            _ => depth += 1,
        }
    }
    false
}

fn strip_components(name: &str, n: usize) -> String {
    // like std::path::Components: a leading "/" is a component (RootDir), "." in the middle and
    // repeated slashes are dropped
    let mut comps: Vec<String> = Vec::new();
    if name.starts_with('/') {
        comps.push("/".into());
    }
    for (i, c) in name.split('/').enumerate() {
        if c.is_empty() {
            continue;
        }
        if c == "." && i != 0 {
            continue;
        }
        comps.push(c.to_string());
    }
    let rest: Vec<String> = comps.into_iter().skip(n).collect();
    let mut s = String::new();
    for (i, c) in rest.iter().enumerate() {
        if c == "/" {
            s.push('/');
        } else {
            if i > 0 && !s.ends_with('/') {
                s.push('/');
            }
            s.push_str(c);
        }
    }
    s
}

impl Prop for C19 {
    type Case = C19Case;
    fn id(&self) -> &'static str {
        "C19"
    }
    fn rule(&self) -> String {
        "file names built from components {.., ., empty, plain names, absolute prefix pointing at a victim file under the scratch root} placed in ---, +++, diff --git and rename position, bare / C-quoted / octal-quoted (escape spellings of '/' and '.'), x strip 0..3 x kind create/modify/delete/rename x threads, optionally after a good patch; the workspace sits two levels inside a sentinel directory holding plausible victim files exactly where the names resolve to. Oracle: the snapshot of everything outside the workspace is unchanged; when a name that survives stripping is absolute or leaves the tree lexically the push exits 1 (refused, no crash) and the workspace itself is unchanged too; names containing '..' that stay inside may be refused or applied. Second family (1 case in 4): an ordinary generated workspace (creations in new nested directories, deletions and renames that empty directories, failing patches) pushed with -d <absolute or relative path> from a different launch directory that holds decoy directories and files named like those of the workspace; oracle: everything outside the workspace, directories and mtimes included, is unchanged. non-trivial = the stripped name escapes / the run creates or empties a directory that has a decoy; distinct = distinct case".into()
    }
    fn assumptions(&self) -> Vec<String> {
        vec!["escape is judged lexically on the name after removing N components the way std::path::Components counts them".into()]
    }
    fn budget(&self, tier: Tier) -> (u32, usize) {
        (tier.pick(1500, 25000), 120)
    }
    fn build(&self, ch: &mut Chooser, cx: &mut CaseCtx) -> C19Case {
        if ch.chance(1, 4) {
            let l = build_launch(ch, cx);
            return C19Case { minus: B(vec![]), plus: B(vec![]), git: None, rename: false, strip: 0, kind: "launch".into(), stripped_old: String::new(), stripped_new: String::new(), threads: l.opts.threads, escapes: false, good_first: false, launch: Some(l) };
        }
        let strip = ch.below(4);
        let kind = ch.pick(&["create", "modify", "delete", "rename", "rename-only", "mode-only"]).to_string();
        // the escaping name, relative to the workspace root, before prefixing
        let abs_victim = cx.env.scratch.join("ABSVICTIM").to_string_lossy().into_owned();
        let evil: String = match ch.below(9) {
            0 => "../victim.txt".into(),
            1 => "../../victim.txt".into(),
            2 => "sub/../../victim.txt".into(),
            3 => "./../victim.txt".into(),
            4 => "sub/../../../victim.txt".into(),
            5 => abs_victim.clone(),
            6 => "sub/../inside.txt".into(),    // stays inside
            7 => "sub/./inside2.txt".into(),    // stays inside
            _ => "..//victim.txt".into(),
        };
        let good = "sub/good.txt".to_string();
        // prefix components to be stripped
        let mut prefix = String::new();
        for i in 0..strip {
            prefix.push_str(["a", "top", "x"][i % 3]);
            prefix.push('/');
        }
        // absolute names: stripping eats the root dir first; to keep them absolute use strip 0 or
        // construct so that what remains is still the absolute path: "/" counts as one component
        let raw_evil = if evil.starts_with('/') {
            if strip == 0 {
                evil.clone()
            } else {
                // after removing `strip` components something relative remains: make it escape with ..
                format!("{}../victim.txt", prefix)
            }
        } else {
            format!("{}{}", prefix, evil)
        };
        let raw_good = format!("{}{}", prefix, good);
        let q = ch.below(4);
        let quote = |s: &str| -> Vec<u8> {
            match q {
                1 => c_quote(s.as_bytes()),
                2 => c_quote_octal(s.as_bytes()),
                _ => s.as_bytes().to_vec(),
            }
        };
        // where the evil name sits
        let (old_raw, new_raw): (String, String) = match kind.as_str() {
            "create" => ("/dev/null".into(), raw_evil.clone()),
            "delete" => (raw_evil.clone(), "/dev/null".into()),
            "rename" | "rename-only" => {
                if ch.chance(1, 2) {
                    (raw_good.clone(), raw_evil.clone())
                } else {
                    (raw_evil.clone(), raw_good.clone())
                }
            }
            "mode-only" => (raw_evil.clone(), raw_evil.clone()),
            _ => match ch.below(3) {
                0 => (raw_evil.clone(), raw_evil.clone()),
                1 => (raw_evil.clone(), raw_good.clone()),
                _ => (format!("{}nonexistent.txt", prefix), raw_evil.clone()),
            },
        };
        let git = if kind == "rename" || kind == "rename-only" || kind == "mode-only" || ch.chance(1, 3) { Some((B(quote(if old_raw == "/dev/null" { &new_raw } else { &old_raw })), B(quote(if new_raw == "/dev/null" { &old_raw } else { &new_raw })))) } else { None };
        let strip_of = |s: &str| if s == "/dev/null" { String::new() } else { strip_components(s, strip) };
        let (so, sn) = (strip_of(&old_raw), strip_of(&new_raw));
        let escapes = lexical_escape(&so) || lexical_escape(&sn);
        C19Case {
            minus: B(if old_raw == "/dev/null" { b"/dev/null".to_vec() } else { quote(&old_raw) }),
            plus: B(if new_raw == "/dev/null" { b"/dev/null".to_vec() } else { quote(&new_raw) }),
            git,
            rename: kind == "rename" || kind == "rename-only",
            strip,
            kind,
            stripped_old: so,
            stripped_new: sn,
            threads: *ch.pick(&[1usize, 2, 4]),
            escapes,
            good_first: ch.chance(1, 2),
            launch: None,
        }
    }
    fn check(&self, case: &C19Case, cx: &mut CaseCtx) -> Verdict {
        if let Some(l) = &case.launch {
            return check_launch(l, cx);
        }
        cx.label(&format!("kind-{}", case.kind));
        cx.label(&format!("strip-{}", case.strip));
        cx.label_if(case.escapes, "escapes");
        cx.label_if(!case.escapes, "stays-inside");
        cx.label_if(case.minus.starts_with(b"\"") || case.plus.starts_with(b"\""), "quoted");
        cx.label_if(case.stripped_old.starts_with('/') || case.stripped_new.starts_with('/'), "absolute");
        if case.escapes {
            cx.nontrivial = true;
        }
        // layout: <base>/outer/inner/ws ; victims at outer/victim.txt, outer/inner/victim.txt, base/victim.txt, ABSVICTIM
        let base = cx.env.fresh_dir("c19-");
        let wsroot = base.join("outer/inner/ws");
        let abs_victim = cx.env.scratch.join("ABSVICTIM");
        std::fs::write(&abs_victim, VICTIM).ok();
        let mut tree = Tree::default();
        tree.files.insert("sub/good.txt".into(), TFile { data: B::new(VICTIM), mode: 0o644 });
        tree.files.insert("sub/inside.txt".into(), TFile { data: B::new(VICTIM), mode: 0o644 });
        tree.files.insert("inside.txt".into(), TFile { data: B::new(VICTIM), mode: 0o644 });
        tree.files.insert("sub/inside2.txt".into(), TFile { data: B::new(VICTIM), mode: 0o644 });
        tree.files.insert("other.txt".into(), TFile { data: B::new("other\n"), mode: 0o644 });
        let hunk: &[u8] = match case.kind.as_str() {
            "create" => b"@@ -0,0 +1,2 @@\n+evil 1\n+evil 2\n",
            "delete" => b"@@ -1,3 +0,0 @@\n-victim line 1\n-victim line 2\n-victim line 3\n",
            _ => b"@@ -1,3 +1,3 @@\n victim line 1\n-victim line 2\n+EVIL\n victim line 3\n",
        };
        let mut text = Vec::new();
        if let Some((a, b)) = &case.git {
            text.extend_from_slice(b"diff --git ");
            text.extend_from_slice(a);
            text.push(b' ');
            text.extend_from_slice(b);
            text.push(b'\n');
            if case.rename {
                text.extend_from_slice(b"similarity index 80%\nrename from x\nrename to y\n");
            }
        }
        if case.kind == "mode-only" {
            text.extend_from_slice(b"old mode 100644\nnew mode 100755\n");
        }
        if case.kind != "mode-only" && case.kind != "rename-only" {
            text.extend_from_slice(b"--- ");
            text.extend_from_slice(&case.minus);
            text.extend_from_slice(b"\n+++ ");
            text.extend_from_slice(&case.plus);
            text.push(b'\n');
            text.extend_from_slice(hunk);
        }
        let mut patches = vec![];
        let mut series = String::new();
        if case.good_first {
            patches.push(("good.patch".to_string(), B::new("--- a/other.txt\n+++ b/other.txt\n@@ -1 +1 @@\n-other\n+OTHER\n")));
            series.push_str("good.patch\n");
        }
        patches.push(("evil.patch".to_string(), B(text)));
        series.push_str(&format!("evil.patch -p{}\n", case.strip));
        let spec = WsSpec { tree, patches, series: B(series.into_bytes()), applied: None, dirs: vec![], symlinks: vec![] };
        spec.materialise(&wsroot);
        for v in ["outer/victim.txt", "outer/inner/victim.txt", "victim.txt"] {
            std::fs::write(base.join(v), VICTIM).expect("victim");
        }
        let outside = |b: &std::path::Path| -> ws::Snapshot { ws::snapshot(b).into_iter().filter(|(p, _)| !p.starts_with(b"outer/inner/ws/") && p.as_slice() != b"outer/inner/ws").collect() };
        ws::pin_mtimes(&base);
        let before_out = outside(&base);
        let before_ws = ws::snapshot(&wsroot);
        let abs_before = std::fs::read(&abs_victim).ok();
        let o = PushOpts { threads: case.threads, backup: "always".into(), verbosity: String::new(), ..Default::default() };
        let obs = push(cx, &wsroot, &o, &Default::default());
        let after_out = outside(&base);
        let abs_after = std::fs::read(&abs_victim).ok();
        ws::rm_rf(&base);
        if obs.out.exit == Exit::Timeout {
            return Verdict::Inconclusive("watchdog".into());
        }
        if let Some(c) = crash_or_timeout(&obs.out.exit) {
            return Verdict::Fail(format!("push crashed: {}; stderr {}", c, ws::lossy(&obs.out.stderr)));
        }
        if after_out != before_out {
            return Verdict::Fail(format!("a file OUTSIDE the working directory was touched: {} (names after -p{}: {:?} / {:?})", first_snapshot_diff(&before_out, &after_out), case.strip, case.stripped_old, case.stripped_new));
        }
        if abs_after != abs_before {
            return Verdict::Fail(format!("the absolute-path victim {:?} was touched", abs_victim));
        }
        if case.escapes {
            if obs.out.exit != Exit::Code(1) {
                return Verdict::Fail(format!("names {:?}/{:?} escape the tree after -p{} but the push exits {:?}", case.stripped_old, case.stripped_new, case.strip, obs.out.exit));
            }
            // refused cleanly: nothing but rejects may appear inside the workspace
            let changed: Vec<_> = obs
                .snap
                .iter()
                .filter(|(p, e)| before_ws.get(*p).map_or(true, |b| b.bytes != e.bytes))
                .map(|(p, _)| String::from_utf8_lossy(p).into_owned())
                .filter(|p| !p.ends_with(".rej") && !p.starts_with(".pc") && !(case.good_first && p == "other.txt"))
                .collect();
            if !changed.is_empty() {
                return Verdict::Fail(format!("escaping patch refused, but tracked files changed: {:?}", changed));
            }
        }
        Verdict::Pass
    }
}
