//! Properties that need the cfg-guarded hooks in the binary: C06 (forced schedules),
//! C07 (distributor), C18 (output fault enumeration).

use crate::bytes::fnv;
use crate::choose::Chooser;
use crate::engine::*;
use crate::props::cli::*;
use crate::push::*;
use crate::ws::{self, Exit, RunOpts, Snapshot};
use crate::wsgen::*;
use serde::{Deserialize, Serialize};
use std::collections::{BTreeMap, BTreeSet};

fn env1(k: &str, v: &std::path::Path) -> (String, String) {
    (k.to_string(), v.to_string_lossy().into_owned())
}

/// parse a trace file: (thread tag, event key, forced?)
fn read_trace(p: &std::path::Path) -> Vec<(String, String, bool)> {
    let t = std::fs::read_to_string(p).unwrap_or_default();
    let mut v = Vec::new();
    for l in t.lines() {
        // "ThreadId(3) A 0 name" [ (stalled: not forced)]
        if let Some(i) = l.find(") ") {
            let th = l[..i + 1].to_string();
            let mut rest = l[i + 2..].to_string();
            let forced = !rest.ends_with(" (stalled: not forced)");
            if !forced {
                rest.truncate(rest.len() - " (stalled: not forced)".len());
            }
            v.push((th, rest, forced));
        }
    }
    v
}

// ---------------------------------------------------------------------------------- C06

pub struct C06;

#[derive(Clone, Debug, Serialize, Deserialize)]
pub struct C06Case {
    pub ws: WsCase,
    pub opts: PushOpts,
    /// schedules to force: each is (kind, priorities). kind: "random" | "failing-last" |
    /// "failing-first" | "free"
    pub schedules: Vec<(String, Vec<u32>)>,
}

fn compare_full(seq: &Observed, par: &Observed, what: &str) -> Option<String> {
    if seq.out.exit != par.out.exit {
        return Some(format!("{}: exit status {:?} but single-threaded {:?}; stderr: {}", what, par.out.exit, seq.out.exit, ws::lossy(&par.out.stderr)));
    }
    if let Some(d) = ws::diff_maps(&ws::user_files(&seq.snap), &ws::user_files(&par.snap), true) {
        return Some(format!("{}: tree/rejects differ from the single-threaded run: {}", what, d));
    }
    if let Some(d) = ws::diff_maps(&ws::pc_files(&seq.snap), &ws::pc_files(&par.snap), true) {
        return Some(format!("{}: .pc differs from the single-threaded run: {}", what, d));
    }
    // directories too
    let dirs = |s: &Snapshot| -> BTreeSet<Vec<u8>> { s.iter().filter(|(_, e)| e.kind == 'd').map(|(p, _)| p.clone()).collect() };
    let (ds, dp) = (dirs(&seq.snap), dirs(&par.snap));
    if ds != dp {
        let only_s: Vec<_> = ds.difference(&dp).map(|p| String::from_utf8_lossy(p).into_owned()).collect();
        let only_p: Vec<_> = dp.difference(&ds).map(|p| String::from_utf8_lossy(p).into_owned()).collect();
        return Some(format!("{}: directories differ: only single-threaded {:?}, only parallel {:?}", what, only_s, only_p));
    }
    None
}

/// merge per-worker queues into one order: repeatedly take the head with the smallest priority
fn linear_extension(queues: &[Vec<String>], prio: &[u32]) -> Vec<String> {
    let mut pos = vec![0usize; queues.len()];
    let total: usize = queues.iter().map(|q| q.len()).sum();
    // priority of an event = prio[hash-free ordinal]: ordinal = position in the concatenation
    let mut base = vec![0usize; queues.len()];
    let mut acc = 0;
    for (i, q) in queues.iter().enumerate() {
        base[i] = acc;
        acc += q.len();
    }
    let mut out = Vec::with_capacity(total);
    for _ in 0..total {
        let mut best: Option<(u32, usize)> = None;
        for (w, q) in queues.iter().enumerate() {
            if pos[w] < q.len() {
                let ord = base[w] + pos[w];
                let p = prio.get(ord % prio.len().max(1)).copied().unwrap_or(0).wrapping_add((ord as u32).wrapping_mul(2654435761) >> 8 & 0xff);
                if best.map_or(true, |(bp, _)| p < bp) {
                    best = Some((p, w));
                }
            }
        }
        let (_, w) = best.unwrap();
        out.push(queues[w][pos[w]].clone());
        pos[w] += 1;
    }
    out
}

impl Prop for C06 {
    type Case = C06Case;
    fn id(&self) -> &'static str {
        "C06"
    }
    fn rule(&self) -> String {
        "generated workspaces (see C05; failing series in 5 of 8; renames, deletes, creations in new directories, emptied directories; file patches failing only where the reject directory exists throughout) pushed single-threaded as reference and then with 2..16 threads under schedules the harness owns through the cfg-guarded turnstile: free running; 3 (thorough 8) random linear extensions of the per-worker file-patch orders (start and end of every file patch application are events, drawn as a priority vector so they shrink); the targeted extremes 'worker owning the failing file patch runs last' (every other worker runs ahead to the end of its queue) and 'first'; random orders of the save-phase operations (unlink, mkdir, create, reject, rmdir). Oracle (differential): exit status, user tree (bytes+modes), rejects, .pc/** and the set of directories identical to the --threads 1 run. non-trivial = >=2 workers produced events, the trace shows the script was honoured, and the workspace has a failing patch or creates/empties a directory; distinct = distinct (case, schedule)".into()
    }
    fn assumptions(&self) -> Vec<String> {
        vec![
            "schedules are sampled and targeted, not enumerated; preemption inside one file patch application is not controlled (workers share only one atomic)".into(),
            "the assignment of files to workers is deterministic for a given input and thread count (fixed hasher), so the queues learnt from a free run are those of the forced runs; runs where the turnstile had to release an event after a stall are counted, not trusted".into(),
        ]
    }
    fn budget(&self, tier: Tier) -> (u32, usize) {
        (tier.pick(100, 2000), 1000)
    }
    fn build(&self, ch: &mut Chooser, cx: &mut CaseCtx) -> C06Case {
        let thorough = cx.env.tier == Tier::Thorough;
        // a quarter of the workspaces is small enough for ALL interleavings of the apply phase to be forced
        let small = ch.chance(1, 4);
        let o = WsGenOpts { fail_chance: 5, max_patches: if small { 3 } else if thorough { 10 } else { 6 }, max_files: if small { 3 } else { 8 }, alt_name_chance: 1, second_failure: true, allow_hard_error: true, ..Default::default() };
        let ws = gen_ws(ch, cx, &o);
        let mut opts = gen_opts(ch, true);
        opts.threads = *ch.pick(&[2usize, 2, 3, 4, 8, 16]);
        opts.goal = if ch.chance(3, 4) { Goal::All } else { gen_goal(ch, &ws) };
        let mut schedules = vec![("failing-last".to_string(), vec![]), ("failing-first".to_string(), vec![]), ("later-failure-reported-last".to_string(), vec![]), ("enumerate".to_string(), vec![])];
        let nrand = if thorough { 8 } else { 3 };
        for _ in 0..nrand {
            let pr: Vec<u32> = (0..24).map(|_| ch.below(1 << 16) as u32).collect();
            schedules.push(("random".into(), pr));
        }
        C06Case { ws, opts, schedules }
    }
    fn check(&self, case: &C06Case, cx: &mut CaseCtx) -> Verdict {
        let ws = &case.ws;
        label_ws(ws, cx);
        let run = |cx: &mut CaseCtx, threads: usize, env: Vec<(String, String)>| -> Observed {
            let root = cx.env.fresh_dir("c06-");
            ws.spec.materialise(&root);
            let mut o = case.opts.clone();
            o.threads = threads;
            let obs = push(cx, &root, &o, &RunOpts { env, ..Default::default() });
            ws::rm_rf(&root);
            obs
        };
        let seq = run(cx, 1, vec![]);
        if seq.out.exit == Exit::Timeout {
            return Verdict::Inconclusive("watchdog".into());
        }
        // free run with trace: learn the queues
        let trace_path = cx.env.scratch.join("trace.txt");
        let _ = std::fs::remove_file(&trace_path);
        let free = run(cx, case.opts.threads, vec![env1("RQ_VERIF_TRACE", &trace_path)]);
        if free.out.exit == Exit::Timeout {
            return Verdict::Inconclusive("watchdog".into());
        }
        if let Some(d) = compare_full(&seq, &free, &format!("free-running {} threads", case.opts.threads)) {
            return Verdict::Fail(d);
        }
        let tr = read_trace(&trace_path);
        // every worker announces its complete queue in a "Q" line (a rayon thread may run several
        // workers one after the other, so thread ids do not identify workers)
        let mut apply_q: BTreeMap<String, Vec<String>> = BTreeMap::new();
        let mut save_sets: Vec<BTreeSet<String>> = Vec::new();
        for (_, key, _) in &tr {
            if let Some(rest) = key.strip_prefix("QA\t") {
                let q: Vec<String> = rest.split('\t').filter(|k| !k.is_empty()).map(|k| k.to_string()).collect();
                if !q.is_empty() {
                    apply_q.insert(format!("w{:03}", apply_q.len()), q);
                }
            } else if let Some(rest) = key.strip_prefix("QS\t") {
                save_sets.push(rest.split('\t').filter(|k| !k.is_empty()).map(|k| k.to_string()).collect());
            }
        }
        let mut save_q: BTreeMap<String, Vec<String>> = BTreeMap::new();
        for (_, key, _) in &tr {
            if key.starts_with("S ") {
                let w = save_sets.iter().position(|s| s.contains(key)).map(|i| format!("s{:03}", i)).unwrap_or_else(|| "s-clean".to_string());
                save_q.entry(w).or_default().push(key.clone());
            }
        }
        let workers_with_events = apply_q.len();
        cx.label_if(workers_with_events >= 2, ">=2-workers-with-events");
        let exp = expectation(ws, &case.opts, 0);
        let failing_key_prefix = ws.fail_at.filter(|_| exp.stops_on_failure).map(|j| format!("A {} ", j));
        let interesting = exp.stops_on_failure || ws.feat.iter().any(|f| f == "create-in-new-dir" || f == "delete" || f == "rename");
        // expand "enumerate" into every linear extension of the per-worker orders when there are few
        let queues0: Vec<Vec<String>> = apply_q.values().cloned().collect();
        let cap = if cx.env.tier == Tier::Thorough { 120 } else { 24 };
        let mut enumerated: Vec<Vec<String>> = Vec::new();
        let mut complete = false;
        {
            let total: usize = queues0.iter().map(|q| q.len()).sum();
            if queues0.iter().filter(|q| !q.is_empty()).count() >= 2 && total <= 12 {
                // depth-first enumeration with a cap
                fn rec(queues: &[Vec<String>], pos: &mut Vec<usize>, cur: &mut Vec<String>, out: &mut Vec<Vec<String>>, cap: usize, total: usize) -> bool {
                    if cur.len() == total {
                        out.push(cur.clone());
                        return out.len() < cap + 1;
                    }
                    for w in 0..queues.len() {
                        if pos[w] < queues[w].len() {
                            cur.push(queues[w][pos[w]].clone());
                            pos[w] += 1;
                            let go_on = rec(queues, pos, cur, out, cap, total);
                            pos[w] -= 1;
                            cur.pop();
                            if !go_on {
                                return false;
                            }
                        }
                    }
                    true
                }
                let mut pos = vec![0; queues0.len()];
                let mut cur = Vec::new();
                complete = rec(&queues0, &mut pos, &mut cur, &mut enumerated, cap, total);
                if !complete {
                    enumerated.truncate(cap);
                }
            }
        }
        let mut expanded: Vec<(String, Vec<u32>, Option<Vec<String>>)> = Vec::new();
        for (kind, prio) in &case.schedules {
            if kind == "enumerate" {
                for e in &enumerated {
                    expanded.push((if complete { "enumerated-all".to_string() } else { "enumerated-capped".to_string() }, vec![], Some(e.clone())));
                }
            } else {
                expanded.push((kind.clone(), prio.clone(), None));
            }
        }
        cx.label_if(complete && !enumerated.is_empty(), "all-linear-extensions-of-the-apply-phase-forced");
        for (kind, prio, fixed) in &expanded {
            let queues: Vec<Vec<String>> = apply_q.values().cloned().collect();
            let mut script: Vec<String> = match kind.as_str() {
                "enumerated-all" | "enumerated-capped" => fixed.clone().unwrap_or_default(),
                "later-failure-reported-last" => {
                    // two failing patches j1 < j2 on different workers: j2's application starts first (so it
                    // passes the 'am I past the earliest failure' test), j1 fails and reports, then j2 reports
                    let Some(j1) = ws.fail_at.filter(|_| exp.stops_on_failure) else { continue };
                    let j2 = ws.metas.iter().enumerate().skip(j1 + 1).find(|(_, m)| m.ops.iter().any(|o| !o.failing_hunks.is_empty())).map(|(i, _)| i);
                    let Some(j2) = j2 else { continue };
                    let failing_names = |j: usize| -> Vec<String> { ws.metas[j].ops.iter().filter(|o| !o.failing_hunks.is_empty()).flat_map(|o| vec![format!("A {} {}", j, o.old_path), format!("A {} {}", j, o.new_path)]).collect() };
                    let (n1, n2) = (failing_names(j1), failing_names(j2));
                    // keys carry the name as spelled in the patch ("A <patch> <name>")
                    let nk = |k: &String| -> String {
                        let mut sp = k.splitn(3, ' ');
                        match (sp.next(), sp.next(), sp.next()) {
                            (Some(a), Some(j), Some(name)) => format!("{} {} {}", a, j, ws::norm_rel(name)),
                            _ => k.clone(),
                        }
                    };
                    let q1 = queues.iter().position(|q| q.iter().any(|k| n1.contains(&nk(k))));
                    let q2 = queues.iter().position(|q| q.iter().any(|k| n2.contains(&nk(k))));
                    let (Some(q1), Some(q2)) = (q1, q2) else { continue };
                    if q1 == q2 {
                        continue;
                    }
                    let e1 = queues[q1].iter().find(|k| n1.contains(&nk(k))).unwrap().clone();
                    let e2 = queues[q2].iter().find(|k| n2.contains(&nk(k))).unwrap().clone();
                    let mut v = Vec::new();
                    // everything the two workers do before those events, then the crossing
                    for k in &queues[q2] {
                        if k == &e2 {
                            break;
                        }
                        v.push(k.clone());
                    }
                    for k in &queues[q1] {
                        if k == &e1 {
                            break;
                        }
                        v.push(k.clone());
                    }
                    v.push(e2.clone());
                    v.push(e1.clone());
                    v.push(e1.replacen("A", "a", 1));
                    v.push(e2.replacen("A", "a", 1));
                    cx.label("two-failing-patches-on-different-workers");
                    v
                }
                "failing-last" | "failing-first" => {
                    let Some(pref) = &failing_key_prefix else { continue };
                    let (mut fail_q, mut rest): (Vec<Vec<String>>, Vec<Vec<String>>) = queues.iter().cloned().partition(|q| q.iter().any(|k| k.starts_with(pref.as_str())));
                    if fail_q.is_empty() || rest.is_empty() {
                        continue;
                    }
                    let mut v = Vec::new();
                    if kind == "failing-last" {
                        for q in rest.drain(..) {
                            v.extend(q);
                        }
                        for q in fail_q.drain(..) {
                            v.extend(q);
                        }
                    } else {
                        for q in fail_q.drain(..) {
                            v.extend(q);
                        }
                        for q in rest.drain(..) {
                            v.extend(q);
                        }
                    }
                    v
                }
                _ => linear_extension(&queues, prio),
            };
            // save phase: random merge of the per-worker save orders
            // (directory cleanup happens after all workers are done: those events are not scripted)
            let sq: Vec<Vec<String>> = save_q.iter().filter(|(w, _)| w.as_str() != "s-clean").map(|(_, q)| q.clone()).collect();
            let rev: Vec<u32> = prio.iter().rev().copied().collect();
            script.extend(linear_extension(&sq, if rev.is_empty() { &[7u32, 3, 9, 1][..] } else { &rev[..] }));
            if script.is_empty() {
                continue;
            }
            let script_path = cx.env.scratch.join("sched.txt");
            std::fs::write(&script_path, script.join("\n") + "\n").expect("script");
            let _ = std::fs::remove_file(&trace_path);
            let obs = run(cx, case.opts.threads, vec![env1("RQ_VERIF_SCHED", &script_path), env1("RQ_VERIF_TRACE", &trace_path), ("RQ_VERIF_SCHED_STALL_MS".to_string(), "120".to_string())]);
            if obs.out.exit == Exit::Timeout {
                return Verdict::Inconclusive("watchdog (forced schedule)".into());
            }
            let tr2 = read_trace(&trace_path);
            let honoured = tr2.iter().all(|(_, _, f)| *f);
            cx.label(&format!("schedule-{}", kind));
            cx.label_if(!honoured, "schedule-not-fully-forced");
            if honoured && workers_with_events >= 2 && interesting {
                cx.nontrivial = true;
                cx.sub_hashes.push(fnv(script.join("|").as_bytes()));
            }
            // run-ahead depth
            if let Some(j) = ws.fail_at {
                let ahead = tr2.iter().filter(|(_, k, _)| k.starts_with("a ") && k.split(' ').nth(1).and_then(|x| x.parse::<usize>().ok()).map_or(false, |i| i > j)).count();
                cx.label_if(ahead > 0 && exp.stops_on_failure, "run-ahead-applied-beyond-failure");
                let ren_ahead = ws.metas.iter().enumerate().any(|(i, m)| i > j && m.ops.iter().any(|o| o.kind == "rename"));
                cx.label_if(ren_ahead && ahead > 0, "rename-beyond-failing-index");
            }
            if let Some(d) = compare_full(&seq, &obs, &format!("{} threads under schedule '{}' ({} events)", case.opts.threads, kind, script.len())) {
                return Verdict::Fail(format!("{}; script: {:?}", d, script));
            }
        }
        Verdict::Pass
    }
}

// ---------------------------------------------------------------------------------- C07

pub struct C07;

#[derive(Clone, Debug, Serialize, Deserialize)]
pub enum C07Case {
    /// sequences number from..from+count of all sequences of length `len` over `forms(names)` forms
    Enum { names: usize, len: usize, from: u64, count: u64, threads: usize },
    /// explicit sequences: (name, related or -1)
    List { threads: usize, seqs: Vec<Vec<(u8, i8)>> },
    /// a workspace pushed with a trace: no file name may be handled by two workers
    Cli { ws: WsCase, threads: usize },
}

fn forms(names: usize) -> Vec<(u8, i8)> {
    let mut v = Vec::new();
    for a in 0..names {
        v.push((a as u8, -1));
    }
    for a in 0..names {
        for b in 0..names {
            if a != b {
                v.push((a as u8, b as i8));
            }
        }
    }
    v
}

fn nth_seq(fs: &[(u8, i8)], len: usize, mut idx: u64) -> Vec<(u8, i8)> {
    let n = fs.len() as u64;
    let mut s = Vec::with_capacity(len);
    for _ in 0..len {
        s.push(fs[(idx % n) as usize]);
        idx /= n;
    }
    s
}

fn uf_find(p: &mut Vec<usize>, mut x: usize) -> usize {
    while p[x] != x {
        p[x] = p[p[x]];
        x = p[x];
    }
    x
}

/// check one returned map against the union-find oracle
fn check_map(seq: &[(u8, i8)], threads: usize, map: &BTreeMap<String, usize>) -> Result<(), String> {
    let mut parent: Vec<usize> = (0..256).collect();
    let mut present = BTreeSet::new();
    for (a, b) in seq {
        present.insert(*a as usize);
        if *b >= 0 {
            present.insert(*b as usize);
            let (ra, rb) = (uf_find(&mut parent, *a as usize), uf_find(&mut parent, *b as usize));
            parent[ra] = rb;
        }
    }
    for n in &present {
        match map.get(&format!("n{}", n)) {
            None => return Err(format!("name n{} was added but is not in the map", n)),
            Some(t) if *t >= threads => return Err(format!("name n{} mapped to thread {} >= thread count {}", n, t, threads)),
            _ => {}
        }
    }
    if map.len() != present.len() {
        return Err(format!("map has {} names, {} were added", map.len(), present.len()));
    }
    let pv: Vec<usize> = present.iter().copied().collect();
    for i in 0..pv.len() {
        for j in i + 1..pv.len() {
            if uf_find(&mut parent, pv[i]) == uf_find(&mut parent, pv[j]) {
                let (ti, tj) = (map[&format!("n{}", pv[i])], map[&format!("n{}", pv[j])]);
                if ti != tj {
                    return Err(format!("names n{} and n{} are related (directly or through a chain) but assigned to workers {} and {}", pv[i], pv[j], ti, tj));
                }
            }
        }
    }
    Ok(())
}

fn seq_text(seq: &[(u8, i8)]) -> String {
    seq.iter().map(|(a, b)| if *b < 0 { format!("(n{})", a) } else { format!("(n{},n{})", a, b) }).collect::<Vec<_>>().join(",")
}

fn interesting_seq(seq: &[(u8, i8)]) -> bool {
    // some component has >=3 names reached through >=2 relations, or a relation is repeated
    let mut parent: Vec<usize> = (0..256).collect();
    let mut rels = BTreeSet::new();
    let mut repeated = false;
    for (a, b) in seq {
        if *b >= 0 {
            let k = ((*a).min(*b as u8), (*a).max(*b as u8));
            if !rels.insert(k) {
                repeated = true;
            }
            let (ra, rb) = (uf_find(&mut parent, *a as usize), uf_find(&mut parent, *b as usize));
            parent[ra] = rb;
        }
    }
    if repeated {
        return true;
    }
    let mut sizes: BTreeMap<usize, BTreeSet<usize>> = BTreeMap::new();
    for (a, b) in seq {
        if *b >= 0 {
            let r = uf_find(&mut parent, *a as usize);
            sizes.entry(r).or_default().insert(*a as usize);
            sizes.entry(r).or_default().insert(*b as usize);
        }
    }
    sizes.values().any(|s| s.len() >= 3)
}

fn run_batch(cx: &mut CaseCtx, threads: usize, seqs: &[Vec<(u8, i8)>]) -> Result<(), Verdict> {
    let mut input = String::new();
    for s in seqs {
        input.push_str(&format!("T {}\n", threads));
        for (a, b) in s {
            if *b < 0 {
                input.push_str(&format!("n{} -\n", a));
            } else {
                input.push_str(&format!("n{} n{}\n", a, b));
            }
        }
        input.push_str("END\n");
    }
    let inp = cx.env.scratch.join("c07-input.txt");
    std::fs::write(&inp, input).expect("write batch");
    let out = ws::run_bin(&cx.env.bin, &cx.env.scratch, &["verif-distribute".to_string()], &RunOpts { stdin_file: Some(inp), timeout_s: Some(120), ..Default::default() }, &cx.env.scratch);
    cx.evals += seqs.len() as u64;
    match out.exit {
        Exit::Code(0) => {}
        Exit::Timeout => return Err(Verdict::Inconclusive("watchdog in verif-distribute".into())),
        other => {
            // find the culprit by bisection is overkill: report the batch
            return Err(Verdict::Fail(format!("distributor crashed on a batch of {} sequences: {:?}; stderr: {}", seqs.len(), other, ws::lossy(&out.stderr))));
        }
    }
    let text = String::from_utf8_lossy(&out.stdout);
    let mut it = seqs.iter();
    let mut map: BTreeMap<String, usize> = BTreeMap::new();
    let mut n = 0;
    for l in text.lines() {
        if l == "END" {
            let Some(seq) = it.next() else { return Err(Verdict::Fail("more results than cases".into())) };
            n += 1;
            if interesting_seq(seq) {
                cx.nontrivial = true;
                cx.sub_hashes.push(fnv(format!("{}:{}", threads, seq_text(seq)).as_bytes()));
            }
            if let Err(e) = check_map(seq, threads, &map) {
                return Err(Verdict::Fail(format!("sequence {} with {} threads: {} (map {:?})", seq_text(seq), threads, e, map)));
            }
            map.clear();
        } else {
            let mut p = l.split_whitespace();
            if let (Some(name), Some(t)) = (p.next(), p.next()) {
                map.insert(name.to_string(), t.parse().unwrap_or(usize::MAX));
            }
        }
    }
    if n != seqs.len() {
        return Err(Verdict::Fail(format!("got {} results for {} cases", n, seqs.len())));
    }
    Ok(())
}

impl Prop for C07 {
    type Case = C07Case;
    fn id(&self) -> &'static str {
        "C07"
    }
    fn rule(&self) -> String {
        "sweep: every sequence of (name, optional related name) pairs of length <= 5 (thorough 6) over 4 names (16 forms: 4 singles + 12 ordered pairs) for thread counts 2, 3 and 4, fed in batches to the real FilenameDistributor through the cfg-guarded `verif-distribute` sub-command (exhaustive); random: sequences of length 0..12 over up to 8 names, thread counts 1..16; CLI: generated workspaces whose patches chain differing ---/+++ names and renames, pushed with a trace of which worker applied which file patch. Oracle: union-find in the harness: every added name is mapped, every worker id < thread count, names in one connected component share a worker; CLI: no file name is handled by two workers and the result equals the model. non-trivial = some component has >=3 names or a relation is repeated (CLI: >=2 workers and a relation chain); distinct = distinct (sequence, thread count)".into()
    }
    fn assumptions(&self) -> Vec<String> {
        vec!["the sub-command calls FilenameDistributor::add/build exactly as apply_patches does (String keys instead of paths)".into()]
    }
    fn budget(&self, tier: Tier) -> (u32, usize) {
        (tier.pick(100, 1500), 900)
    }
    fn sweep(&self, env: &Env, sink: &mut dyn FnMut(C07Case) -> bool) -> Option<SweepInfo> {
        let maxlen = env.tier.pick(5usize, 6usize);
        let nf = forms(4).len() as u64;
        let batch = 4096u64;
        let mut bi = 0u64;
        for threads in [2usize, 3, 4] {
            for len in 0..=maxlen {
                let total = nf.pow(len as u32);
                let mut from = 0;
                while from < total {
                    let count = batch.min(total - from);
                    if bi % SHARDS as u64 == env.shard as u64 {
                        if !sink(C07Case::Enum { names: 4, len, from, count, threads }) {
                            return Some(SweepInfo { description: "aborted".into(), exhaustive: false });
                        }
                    }
                    bi += 1;
                    from += count;
                }
            }
        }
        Some(SweepInfo { description: format!("all sequences of length <= {} over 16 forms of 4 names, thread counts 2,3,4", maxlen), exhaustive: true })
    }
    fn build(&self, ch: &mut Chooser, cx: &mut CaseCtx) -> C07Case {
        if ch.chance(1, 4) {
            let o = WsGenOpts { fail_chance: 0, max_patches: 8, max_files: 6, alt_name_chance: 6, ..Default::default() };
            let ws = gen_ws(ch, cx, &o);
            return C07Case::Cli { ws, threads: *ch.pick(&[2usize, 3, 4, 8]) };
        }
        let threads = ch.range(1, 16);
        let nseq = 200;
        let mut seqs = Vec::new();
        // merge forests over up to 24 names: components are linked through random members, in random orientation,
        // small and large ones in any order - the parent chains get deep (uniformly random pairs mostly give stars)
        for _ in 0..2 {
            if ch.chance(1, 2) {
                let names = ch.range(6, 24);
                let mut comps: Vec<Vec<u8>> = (0..names as u8).map(|i| vec![i]).collect();
                // random relabelling, so that index order and merge order are unrelated
                for i in (1..comps.len()).rev() {
                    let j = ch.below(i + 1);
                    comps.swap(i, j);
                }
                let mut s = Vec::new();
                let stop_at = ch.range(1, 3);
                while comps.len() > stop_at {
                    let x = ch.below(comps.len());
                    let cx_ = comps.swap_remove(x);
                    let y = ch.below(comps.len());
                    let a = cx_[ch.below(cx_.len())];
                    let b = comps[y][ch.below(comps[y].len())];
                    if ch.chance(1, 2) {
                        s.push((a, b as i8));
                    } else {
                        s.push((b, a as i8));
                    }
                    if ch.chance(1, 6) {
                        s.push((a, -1));
                    }
                    comps[y].extend(cx_);
                }
                seqs.push(s);
            }
        }
        for _ in 0..nseq {
            let names = ch.range(2, 8);
            let len = ch.below(13);
            let mut s = Vec::new();
            for _ in 0..len {
                let a = ch.below(names) as u8;
                let b = if ch.chance(2, 3) { ch.below(names) as i8 } else { -1 };
                s.push((a, if b == a as i8 { -1 } else { b }));
            }
            seqs.push(s);
        }
        C07Case::List { threads, seqs }
    }
    fn check(&self, case: &C07Case, cx: &mut CaseCtx) -> Verdict {
        match case {
            C07Case::Enum { names, len, from, count, threads } => {
                cx.label("sweep-batch");
                let fs = forms(*names);
                let seqs: Vec<Vec<(u8, i8)>> = (*from..*from + *count).map(|i| nth_seq(&fs, *len, i)).collect();
                match run_batch(cx, *threads, &seqs) {
                    Ok(()) => Verdict::Pass,
                    Err(v) => v,
                }
            }
            C07Case::List { threads, seqs } => {
                cx.label("random-batch");
                match run_batch(cx, *threads, seqs) {
                    Ok(()) => Verdict::Pass,
                    Err(v) => v,
                }
            }
            C07Case::Cli { ws, threads } => {
                cx.label("cli-trace");
                label_ws(ws, cx);
                let root = cx.env.fresh_dir("c07-");
                ws.spec.materialise(&root);
                let trace_path = cx.env.scratch.join("trace7.txt");
                let _ = std::fs::remove_file(&trace_path);
                let o = PushOpts { threads: *threads, backup: "never".into(), ..Default::default() };
                let obs = push(cx, &root, &o, &RunOpts { env: vec![env1("RQ_VERIF_TRACE", &trace_path)], ..Default::default() });
                ws::rm_rf(&root);
                if obs.out.exit == Exit::Timeout {
                    return Verdict::Inconclusive("watchdog".into());
                }
                if obs.out.exit != Exit::Code(0) {
                    return Verdict::Fail(format!("push of a cleanly applying series with {} threads exits {:?}: {}", threads, obs.out.exit, ws::lossy(&obs.out.stderr)));
                }
                let n = ws.metas.len();
                if let Some(d) = ws::diff_maps(&ws::tree_as_map(&ws.states[n]), &ws::user_files(&obs.snap), true) {
                    return Verdict::Fail(format!("parallel result differs from the model (hunks silently dropped?): {}", d));
                }
                // which worker handled which names
                let tr = read_trace(&trace_path);
                let mut owner: BTreeMap<String, String> = BTreeMap::new();
                let mut workers = BTreeSet::new();
                let mut cursor: BTreeMap<(usize, String), usize> = BTreeMap::new();
                let mut events: Vec<(String, String)> = Vec::new();
                let mut wn = 0;
                for (_, key, _) in &tr {
                    if let Some(rest) = key.strip_prefix("QA\t") {
                        for k in rest.split('\t').filter(|k| k.starts_with("A ")) {
                            events.push((format!("worker{}", wn), k.to_string()));
                        }
                        wn += 1;
                    }
                }
                for (th, key) in &events {
                    let Some(rest) = key.strip_prefix("A ") else { continue };
                    let mut sp = rest.splitn(2, ' ');
                    let (Some(idx), Some(name)) = (sp.next().and_then(|x| x.parse::<usize>().ok()), sp.next()) else { continue };
                    // the tool prints the name as spelled in the patch
                    let name = ws::norm_rel(name);
                    let name = name.as_str();
                    workers.insert(th.clone());
                    // find the op: the k-th op of patch idx whose dispatch name (old or new) is `name`
                    let Some(meta) = ws.metas.get(idx) else { continue };
                    let cands: Vec<&FileOp> = meta.ops.iter().filter(|o| o.old_path == name || (o.kind == "create" && o.new_path == name) || o.new_path == name).collect();
                    let c = cursor.entry((idx, name.to_string())).or_insert(0);
                    let Some(op) = cands.get(*c).or(cands.last()) else { continue };
                    *c += 1;
                    for nm in [&op.old_path, &op.new_path, &op.target] {
                        if let Some(prev) = owner.insert(nm.clone(), th.clone()) {
                            if &prev != th {
                                return Verdict::Fail(format!("file name {:?} is handled by two workers ({} and {})", nm, prev, th));
                            }
                        }
                    }
                }
                if workers.len() >= 2 && ws.feat.iter().any(|f| f.starts_with("alt-") || f == "rename") {
                    cx.nontrivial = true;
                }
                Verdict::Pass
            }
        }
    }
}

// ---------------------------------------------------------------------------------- C18

pub struct C18;

#[derive(Clone, Debug, Serialize, Deserialize)]
pub struct C18Case {
    pub ws: WsCase,
    pub opts: PushOpts,
    /// also try RLIMIT_FSIZE limits (fractions of the largest output, in 1/8)
    pub fsize_eighths: Vec<u32>,
}

fn read_oplog(p: &std::path::Path) -> Vec<(usize, String, String)> {
    let t = std::fs::read_to_string(p).unwrap_or_default();
    t.lines()
        .filter_map(|l| {
            let mut sp = l.splitn(3, ' ');
            Some((sp.next()?.parse().ok()?, sp.next()?.to_string(), sp.next().unwrap_or("").to_string()))
        })
        .collect()
}

fn names_file(stderr: &[u8], path: &str) -> bool {
    let s = String::from_utf8_lossy(stderr);
    let base = path.rsplit('/').next().unwrap_or(path);
    if !base.is_empty() && s.contains(base) {
        return true;
    }
    if base == "applied-patches" || base == ".pc" {
        return s.contains("applied patches") || s.contains("applied-patches") || s.contains(".pc");
    }
    false
}

impl Prop for C18 {
    type Case = C18Case;
    fn id(&self) -> &'static str {
        "C18"
    }
    fn level(&self) -> &'static str {
        "fault_enumeration"
    }
    fn rule(&self) -> String {
        "fault enumeration: for each generated workspace (see C05; failing series so that rejects are written, --backup always so that backups are written, 1..4 threads) a counting run lists the n output operations of the push through the cfg-guarded hook (unlink, mkdir, create, chmod, write of modified files; reject create/write; backup files; .pc mkdir, applied-patches open/write); then EVERY k in 1..n is failed in turn on a fresh copy (exhaustive per workspace). Additionally kernel-level faults: RLIMIT_FSIZE set to fractions of the largest output with SIGXFSZ ignored, so that write(2) itself fails on the larger outputs; permission faults as an unprivileged user (unlink in a read-only directory; rmdir of a directory the push empties below a read-only parent); obstacles of the wrong type at .pc, a backup directory, a reject path. Oracle: exit status 1 (never 0, never a crash); stderr names the file of the failed operation (last path component; 'applied patches' for that file); .pc/applied-patches gains nothing unless the fault hit the applied-patches file itself, and then only names of patches whose files are all written. non-trivial = n >= 3 and the failed operation is not the first; distinct = distinct (workspace, failed operation kind+path+ordinal)".into()
    }
    fn assumptions(&self) -> Vec<String> {
        vec![
            "faults are injected at operation boundaries (hook) and inside write(2) via RLIMIT_FSIZE; partial writes followed by success, fsync loss and crash consistency are outside the property".into(),
            "with several threads the k-th operation differs between runs; the failing run's own operation log says which one failed".into(),
        ]
    }
    fn budget(&self, tier: Tier) -> (u32, usize) {
        (tier.pick(100, 1500), 900)
    }
    fn max_shrink_iters(&self, _tier: Tier) -> u32 {
        200
    }
    fn build(&self, ch: &mut Chooser, cx: &mut CaseCtx) -> C18Case {
        let o = WsGenOpts { fail_chance: 4, max_patches: 4, max_files: 4, max_lines: 12, long_last_line_chance: 2, ..Default::default() };
        let ws = gen_ws(ch, cx, &o);
        let mut opts = gen_opts(ch, true);
        opts.threads = *ch.pick(&[1usize, 1, 2, 4]);
        opts.backup = ch.pick(&["always", "always", "onfail", "never"]).to_string();
        opts.mmap = false;
        opts.via_d = false;
        opts.verbosity = ch.pick(&["-q", ""]).to_string();
        let fsize_eighths = vec![0, ch.range(1, 7) as u32, 8];
        C18Case { ws, opts, fsize_eighths }
    }
    fn check(&self, case: &C18Case, cx: &mut CaseCtx) -> Verdict {
        let ws = &case.ws;
        label_ws(ws, cx);
        cx.label_if(case.opts.threads > 1, "threads>1");
        let names = ws.names();
        let exp = expectation(ws, &case.opts, 0);
        let oplog = cx.env.scratch.join("oplog.txt");
        let run = |cx: &mut CaseCtx, env: Vec<(String, String)>, fsize: Option<u64>| -> Observed {
            let root = cx.env.fresh_dir("c18-");
            ws.spec.materialise(&root);
            let obs = push(cx, &root, &case.opts, &RunOpts { env, fsize_limit: fsize, ..Default::default() });
            ws::rm_rf(&root);
            obs
        };
        let _ = std::fs::remove_file(&oplog);
        let base = run(cx, vec![env1("RQ_VERIF_OPLOG", &oplog)], None);
        if base.out.exit == Exit::Timeout {
            return Verdict::Inconclusive("watchdog".into());
        }
        let ops = read_oplog(&oplog);
        let n = ops.len();
        cx.label(&format!("ops-{}", if n < 3 { "<3" } else if n < 10 { "3..9" } else if n < 30 { "10..29" } else { ">=30" }));
        let applied_before: Vec<String> = vec![];
        for k in 1..=n {
            let _ = std::fs::remove_file(&oplog);
            let obs = run(cx, vec![env1("RQ_VERIF_OPLOG", &oplog), ("RQ_VERIF_FAIL_AT".to_string(), k.to_string())], None);
            if obs.out.exit == Exit::Timeout {
                return Verdict::Inconclusive("watchdog".into());
            }
            let log = read_oplog(&oplog);
            let Some((_, kind, path)) = log.iter().find(|(i, _, _)| *i == k).cloned() else {
                // with threads the run may have had fewer operations
                cx.skip("fault-ordinal-not-reached");
                continue;
            };
            cx.label(&format!("fault-{}", kind));
            if n >= 3 && k > 1 {
                cx.nontrivial = true;
                cx.sub_hashes.push(fnv(format!("{}|{}|{}", k, kind, path).as_bytes()));
            }
            let what = format!("fault at output operation {} of {} ({} {})", k, n, kind, path);
            match obs.out.exit {
                Exit::Code(1) => {}
                Exit::Code(0) => return Verdict::Fail(format!("{}: the push reports success (exit 0)", what)),
                ref other => return Verdict::Fail(format!("{}: crashed: {:?}; stderr: {}", what, other, ws::lossy(&obs.out.stderr))),
            }
            let names_it = names_file(&obs.out.stderr, &path) || (kind == "mkdir" && String::from_utf8_lossy(&obs.out.stderr).contains("Failed to save"));
            if !names_it {
                return Verdict::Fail(format!("{}: the error message does not name the file: {}", what, ws::lossy(&obs.out.stderr)));
            }
            let got_applied: Vec<String> = obs.snap.get(&b".pc/applied-patches".to_vec()).map(|e| String::from_utf8_lossy(&e.bytes).lines().map(|s| s.to_string()).collect()).unwrap_or_default();
            let on_applied_file = path.ends_with("applied-patches") || path.ends_with(".pc");
            if !on_applied_file {
                if got_applied != applied_before {
                    return Verdict::Fail(format!("{}: .pc/applied-patches nevertheless gained {:?}", what, got_applied));
                }
            } else {
                // all files are written at that point: any recorded name must be a prefix of the applied names
                if got_applied.len() > exp.applied || got_applied[..] != names[..got_applied.len()] {
                    return Verdict::Fail(format!("{}: applied-patches holds {:?}", what, got_applied));
                }
            }
        }
        // permission fault: unprivileged user, the directory of a file that must be replaced or removed is
        // read-only (unlink fails with EACCES)
        if n % 2 == 0 {
            if let Some(r) = crate::props::cli2::readonly_dir_phase(ws, &case.opts, cx) {
                cx.label("fault-unlink-eacces-unprivileged");
                if r.obs.out.exit == Exit::Timeout {
                    return Verdict::Inconclusive("watchdog".into());
                }
                cx.nontrivial = true;
                cx.sub_hashes.push(fnv(format!("ro|{}", r.victim).as_bytes()));
                let what = format!("unlink of a file in the read-only directory {:?} fails (unprivileged run)", r.dir);
                match r.obs.out.exit {
                    Exit::Code(1) => {}
                    Exit::Code(0) => return Verdict::Fail(format!("{}: the push reports success (exit 0)", what)),
                    ref other => return Verdict::Fail(format!("{}: crashed: {:?}; stderr: {}", what, other, ws::lossy(&r.obs.out.stderr))),
                }
                let err = String::from_utf8_lossy(&r.obs.out.stderr).into_owned();
                // the message carries the name as spelled in the patch: compare the quoted names as paths
                let names_dir = err.split('"').skip(1).step_by(2).any(|q| ws::norm_rel(q).starts_with(&format!("{}/", r.dir)));
                if !(err.contains("Failed to save") && (err.contains(&r.dir) || names_dir)) && exp.applied == exp.requested {
                    return Verdict::Fail(format!("{}: the error message does not name a file in that directory: {}", what, ws::lossy(&r.obs.out.stderr)));
                }
                let got_applied: Vec<String> = r.obs.snap.get(&b".pc/applied-patches".to_vec()).map(|e| String::from_utf8_lossy(&e.bytes).lines().map(|s| s.to_string()).collect()).unwrap_or_default();
                if !got_applied.is_empty() {
                    return Verdict::Fail(format!("{}: applied-patches gained {:?}", what, got_applied));
                }
            }
        }
        // permission fault on a directory removal: a nested directory is emptied by the push, its parent is
        // read-only for the unprivileged user (rmdir fails with EACCES), nothing else has to change in the parent
        if n % 2 == 1 && unsafe { libc::geteuid() } == 0 && !exp.hard_error {
            let end = &ws.states[exp.applied];
            let dir_of = |p: &str| p.rfind('/').map(|i| p[..i].to_string());
            let mut cand: Option<(String, String)> = None;
            for p in ws.spec.tree.files.keys() {
                let Some(d) = dir_of(p) else { continue };
                let Some(par) = dir_of(&d) else { continue };
                let emptied = !end.files.keys().any(|q| q.starts_with(&format!("{}/", d)));
                let was_there_all_the_time = !ws.spec.tree.files.keys().chain(end.files.keys()).any(|q| q == &d);
                let parent_quiet = ws.spec.tree.files.iter().filter(|(q, _)| dir_of(q).as_deref() == Some(par.as_str())).all(|(q, f)| end.files.get(q).map_or(false, |g| g.data == f.data && g.mode == f.mode))
                    && end.files.keys().filter(|q| dir_of(q).as_deref() == Some(par.as_str())).all(|q| ws.spec.tree.files.contains_key(q))
                    && ws.metas.iter().take(exp.applied + 1).all(|m| m.ops.iter().all(|o| [&o.old_path, &o.new_path, &o.target].iter().all(|x| dir_of(x).as_deref() != Some(par.as_str()))));
                // no other directory below the parent may be created or removed
                let siblings_quiet = {
                    let subs = |t: &ws::Tree| -> BTreeSet<String> { t.files.keys().filter(|q| q.starts_with(&format!("{}/", par))).filter_map(|q| q[par.len() + 1..].find('/').map(|i| q[..par.len() + 1 + i].to_string())).collect() };
                    let (a, b) = (subs(&ws.spec.tree), subs(end));
                    a.iter().all(|x| x == &d || b.contains(x)) && b.iter().all(|x| a.contains(x))
                };
                if emptied && was_there_all_the_time && parent_quiet && siblings_quiet {
                    cand = Some((d, par));
                    break;
                }
            }
            if let Some((d, par)) = cand {
                cx.label("fault-rmdir-eacces-unprivileged");
                let base = cx.env.fresh_dir("rod-");
                let root = base.join("work");
                ws.spec.materialise(&root);
                ws::chown_tree(&base, 65534);
                let _ = std::fs::set_permissions(&base, std::os::unix::fs::PermissionsExt::from_mode(0o777));
                let ppath = root.join(&par);
                let _ = std::fs::set_permissions(&ppath, std::os::unix::fs::PermissionsExt::from_mode(0o555));
                let obs = push(cx, &root, &case.opts, &ws::RunOpts { uid: Some(65534), ..Default::default() });
                let _ = std::fs::set_permissions(&ppath, std::os::unix::fs::PermissionsExt::from_mode(0o755));
                ws::rm_rf(&base);
                if obs.out.exit == Exit::Timeout {
                    return Verdict::Inconclusive("watchdog".into());
                }
                cx.nontrivial = true;
                cx.sub_hashes.push(fnv(format!("rod|{}", d).as_bytes()));
                let what = format!("the emptied directory {:?} cannot be removed (its parent is read-only, unprivileged run)", d);
                match obs.out.exit {
                    Exit::Code(1) => {}
                    Exit::Code(0) => return Verdict::Fail(format!("{}: the push reports success (exit 0)", what)),
                    ref other => return Verdict::Fail(format!("{}: crashed: {:?}; stderr: {}", what, other, ws::lossy(&obs.out.stderr))),
                }
                if obs.out.stderr.iter().all(|c| c.is_ascii_whitespace()) {
                    return Verdict::Fail(format!("{}: exit 1 without any message", what));
                }
                let got_applied: Vec<String> = obs.snap.get(&b".pc/applied-patches".to_vec()).map(|e| String::from_utf8_lossy(&e.bytes).lines().map(|s| s.to_string()).collect()).unwrap_or_default();
                if !got_applied.is_empty() {
                    return Verdict::Fail(format!("{}: applied-patches gained {:?}", what, got_applied));
                }
            }
        }
        // obstacles: real faults without any hook - a path component that has the wrong type
        {
            let mut obstacles: Vec<(String, String, bool)> = vec![(".pc".into(), ".pc is a regular file".into(), false)];
            if exp.applied > 0 && case.opts.backup == "always" && (case.opts.backup_count.is_empty() || case.opts.backup_count == "all") {
                obstacles.push((format!(".pc/{}", names[exp.applied - 1]), "backup directory of the last applied patch is a regular file".into(), false));
            }
            if exp.stops_on_failure && !exp.hard_error {
                if let Some(op) = ws.metas[ws.fail_at.unwrap()].ops.iter().find(|o| !o.failing_hunks.is_empty()) {
                    obstacles.push((format!("{}.rej", op.target), "the reject path is a non-empty directory".into(), true));
                }
            }
            // a dangling symbolic link into a directory that does not exist, lying where an applying patch creates a
            // file that is still there at the end: the file cannot be written (open follows the link: ENOENT)
            const LINK: &str = "a dangling symbolic link into a missing directory lies where a patch creates a file";
            let mut link_patch = None;
            'find: for (j, m) in ws.metas.iter().enumerate().take(exp.applied) {
                for o in &m.ops {
                    if o.kind == "create" && o.fail_reason.is_none() && !ws.states[0].files.contains_key(&o.new_path) && ws.states[exp.applied].files.contains_key(&o.new_path) && o.target == o.new_path && !ws.states[0].files.keys().any(|k| k.starts_with(&format!("{}/", o.new_path))) {
                        obstacles.push((o.new_path.clone(), LINK.into(), false));
                        link_patch = Some(j);
                        break 'find;
                    }
                }
            }
            let pick = obstacles[(n + ws.metas.len()) % obstacles.len()].clone();
            let root = cx.env.fresh_dir("c18o-");
            ws.spec.materialise(&root);
            let op = root.join(&pick.0);
            let mut usable = true;
            if pick.1 == LINK {
                if let Some(par) = op.parent() {
                    let _ = std::fs::create_dir_all(par);
                }
                usable = std::os::unix::fs::symlink("no-such-directory/target", &op).is_ok();
            } else if pick.2 {
                usable = std::fs::create_dir_all(op.join("sub")).is_ok();
            } else {
                if let Some(par) = op.parent() {
                    let _ = std::fs::create_dir_all(par);
                }
                usable = usable && std::fs::write(&op, b"obstacle\n").is_ok();
            }
            if usable {
                let obs = push(cx, &root, &case.opts, &Default::default());
                ws::rm_rf(&root);
                cx.label(&format!("obstacle-{}", if pick.1 == LINK { "dangling-link-at-created-file" } else if pick.2 { "rej-is-dir" } else if pick.0 == ".pc" { "pc-is-file" } else { "backup-dir-is-file" }));
                if obs.out.exit == Exit::Timeout {
                    return Verdict::Inconclusive("watchdog".into());
                }
                // is the obstacle really in the way of this run?
                let in_the_way = match pick.0.as_str() {
                    ".pc" => true,
                    _ => true,
                };
                if in_the_way {
                    cx.nontrivial = true;
                    cx.sub_hashes.push(fnv(format!("obstacle|{}", pick.0).as_bytes()));
                    let what = format!("obstacle: {} ({:?})", pick.1, pick.0);
                    match obs.out.exit {
                        Exit::Code(1) => {}
                        Exit::Code(0) => return Verdict::Fail(format!("{}: the push reports success (exit 0)", what)),
                        ref other => return Verdict::Fail(format!("{}: crashed: {:?}; stderr: {}", what, other, ws::lossy(&obs.out.stderr))),
                    }
                    if !names_file(&obs.out.stderr, &pick.0) && !(pick.0.starts_with(".pc") && String::from_utf8_lossy(&obs.out.stderr).contains(".pc")) {
                        return Verdict::Fail(format!("{}: the error message does not name the file: {}", what, ws::lossy(&obs.out.stderr)));
                    }
                    let got_applied: Vec<String> = obs.snap.get(&b".pc/applied-patches".to_vec()).map(|e| String::from_utf8_lossy(&e.bytes).lines().map(|s| s.to_string()).collect()).unwrap_or_default();
                    if pick.0 == ".pc" && !got_applied.is_empty() {
                        return Verdict::Fail(format!("{}: applied-patches gained {:?}", what, got_applied));
                    }
                    if got_applied.len() > exp.applied || got_applied[..] != names[..got_applied.len()] {
                        return Verdict::Fail(format!("{}: applied-patches holds {:?}", what, got_applied));
                    }
                    if pick.1 == LINK && got_applied.len() > link_patch.unwrap() {
                        return Verdict::Fail(format!("{}: applied-patches holds {:?} although a file of patch {} could not be written", what, got_applied, names[link_patch.unwrap()]));
                    }
                }
            } else {
                ws::rm_rf(&root);
            }
        }
        // kernel-level: writes beyond L bytes fail with EFBIG
        // every file the unlimited run wrote (per its operation log), with the size it ended up with
        let base_files = ws::files_of(&base.snap);
        let mut written: Vec<(String, usize)> = Vec::new();
        for (_, kind, path) in &ops {
            if kind == "write" || kind == "rej-write" || kind == "backup" {
                let rel = ws::norm_rel(path);
                if let Some((d, _)) = base_files.get(&rel) {
                    // with several threads a run-ahead worker may load a file of a later patch and re-save it
                    // unchanged - or not, depending on timing: only files that really change must be written
                    let surely_written = case.opts.threads == 1 || ws.spec.tree.files.get(&rel).map_or(true, |f| &f.data.0 != d);
                    if surely_written && !written.iter().any(|(p, _)| p == &rel) {
                        written.push((rel, d.len()));
                    }
                }
            }
        }
        let maxsz = written.iter().map(|(_, s)| *s).max().unwrap_or(0);
        if maxsz > 0 {
            for e in &case.fsize_eighths {
                let limit = (maxsz as u64 * *e as u64) / 8;
                let obs = run(cx, vec![], Some(limit));
                if obs.out.exit == Exit::Timeout {
                    return Verdict::Inconclusive("watchdog".into());
                }
                let too_big: Vec<&(String, usize)> = written.iter().filter(|(_, s)| *s as u64 > limit).collect();
                cx.label(if too_big.is_empty() { "fsize-limit-harmless" } else { "fsize-limit-cuts-outputs" });
                let what = format!("RLIMIT_FSIZE={} (outputs larger than that: {:?})", limit, too_big.iter().map(|(p, s)| format!("{}:{}", p, s)).collect::<Vec<_>>());
                let err_text = String::from_utf8_lossy(&obs.out.stderr).into_owned();
                if too_big.is_empty() {
                    // intermediate states (a file backed up twice within one patch) can be larger than
                    // anything in the final tree: a properly reported EFBIG is fine here too
                    let reported_efbig = obs.out.exit == Exit::Code(1) && err_text.contains("File too large") && err_text.contains("Failed to save");
                    if obs.out.exit != base.out.exit && !reported_efbig {
                        return Verdict::Fail(format!("{}: exit {:?} differs from the unlimited run {:?}; stderr {}", what, obs.out.exit, base.out.exit, ws::lossy(&obs.out.stderr)));
                    }
                    continue;
                }
                cx.nontrivial = true;
                cx.sub_hashes.push(fnv(format!("fsize{}", e).as_bytes()));
                match obs.out.exit {
                    Exit::Code(1) => {}
                    Exit::Code(0) => return Verdict::Fail(format!("{}: write(2) failed with EFBIG but the push reports success (exit 0)", what)),
                    ref other => return Verdict::Fail(format!("{}: crashed: {:?}; stderr: {}", what, other, ws::lossy(&obs.out.stderr))),
                }
                let reported = ["Failed to save", "When saving applied patches"].iter().any(|m| err_text.contains(m)) && err_text.contains("File too large");
                // with several threads which file hits the limit first depends on timing (and run-ahead
                // workers re-save files the single-threaded run never loads): any named file is accepted there
                let named = too_big.iter().any(|(p, _)| names_file(&obs.out.stderr, p)) || (case.opts.threads > 1 && err_text.contains("Failed to save") && err_text.contains('"'));
                if !reported || !named {
                    return Verdict::Fail(format!("{}: the write failure is not reported with the name of a file that could not be written: {}", what, ws::lossy(&obs.out.stderr)));
                }
                let got_applied: Vec<String> = obs.snap.get(&b".pc/applied-patches".to_vec()).map(|e| String::from_utf8_lossy(&e.bytes).lines().map(|s| s.to_string()).collect()).unwrap_or_default();
                let applied_file_cut = too_big.iter().any(|(p, _)| p == ".pc/applied-patches");
                let files_cut = too_big.iter().any(|(p, _)| p != ".pc/applied-patches");
                if files_cut && !got_applied.is_empty() {
                    return Verdict::Fail(format!("{}: outputs could not be written but applied-patches gained {:?}", what, got_applied));
                }
                let _ = applied_file_cut;
            }
        }
        Verdict::Pass
    }
}
