pub mod c01;
pub mod c04;
pub mod c11;
pub mod cli;
pub mod cli2;
pub mod cli3;
pub mod hooks;
pub mod place;
