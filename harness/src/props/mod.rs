pub mod c01;
pub mod c11;
