//! C02 (placement rules), C03 (exactly the marked lines change), C20 (fuzz monotonicity,
//! in-process part): arbitrary hunks against small, highly repetitive files.

use crate::bytes::{esc, join_lines, B};
use crate::choose::{gen_line, Alphabet, Chooser};
use crate::diff::{HHunk, HLine};
use crate::engine::*;
use crate::inproc::{self, Rep, Step};
use crate::model::*;
use crate::ws;
use serde::{Deserialize, Serialize};

#[derive(Clone, Debug, Serialize, Deserialize)]
pub struct PlaceCase {
    /// file lines (with terminators)
    pub file: Vec<B>,
    /// hunks as rendered in the patch (old/new in patch orientation)
    pub hunks: Vec<HHunk>,
    /// apply with -R (then the NEW side of each hunk is matched against the file)
    pub reverse: bool,
    pub fuzz: usize,
    /// second, larger fuzz limit (used by C20 only)
    #[serde(default)]
    pub fuzz2: usize,
    /// C20 only: also push through the binary with this many threads
    #[serde(default)]
    pub cli_threads: Option<usize>,
    /// C20 CLI only: this many additional one-line patches behind the generated one (more than the default
    /// number of patches that get quilt backups)
    #[serde(default)]
    pub long_series: usize,
}

impl PlaceCase {
    pub fn patch_text(&self) -> Vec<u8> {
        let mut out = b"--- a/f\n+++ b/f\n".to_vec();
        for h in &self.hunks {
            h.render(&mut out);
        }
        out
    }
    pub fn mhunks(&self) -> Vec<MHunk> {
        self.hunks.iter().map(|h| MHunk::from_hhunk(h, self.reverse)).collect()
    }
}

fn other_letter(ch: &mut Chooser, k: usize, not: &B) -> B {
    // a line guaranteed different from `not`
    let mut l = gen_line(ch, Alphabet::Small(k));
    l.0.push(b'\n');
    if &l == not {
        B::new("#\n")
    } else {
        l
    }
}

pub struct GenOpts {
    pub max_file: usize,
    pub max_hunks: usize,
    pub max_fuzz: usize,
}

/// Generate hunks in APPLY orientation against `file` (alphabet of k letters).
pub fn gen_hunks_for(ch: &mut Chooser, file: &[B], k: usize, max_hunks: usize) -> Vec<HHunk> {
    let alpha = Alphabet::Small(k);
    let n = file.len();
    let nh = ch.range(1, max_hunks);
    let shuffled = ch.chance(1, 6);
    let mut specs: Vec<(usize, HHunk)> = Vec::new();
    for _ in 0..nh {
        let free = ch.chance(1, 4);
        let mut lines: Vec<HLine> = Vec::new();
        let w;
        if !free {
            w = ch.below(n + 1);
            let p = ch.below(4);
            let s = ch.below(4);
            let mut r = ch.below(4);
            let mut a = ch.below(4);
            if r + a == 0 {
                if ch.chance(1, 2) {
                    r = 1
                } else {
                    a = 1
                }
            }
            let mut idx = w;
            let mut take = |cnt: usize, tag: u8, lines: &mut Vec<HLine>| {
                for _ in 0..cnt {
                    if idx < n {
                        lines.push(HLine { tag, text: file[idx].clone() });
                        idx += 1;
                    }
                }
            };
            take(p, b' ', &mut lines);
            let before = lines.len();
            take(r, b'-', &mut lines);
            let removed = lines.len() - before;
            for _ in 0..a {
                let mut l = gen_line(ch, alpha);
                l.0.push(b'\n');
                lines.push(HLine { tag: b'+', text: l });
            }
            if removed + a == 0 {
                let mut l = gen_line(ch, alpha);
                l.0.push(b'\n');
                lines.push(HLine { tag: b'+', text: l });
            }
            take(s, b' ', &mut lines);
            // perturbations
            if ch.chance(1, 3) {
                let ctx: Vec<usize> = lines.iter().enumerate().filter(|(_, l)| l.tag == b' ').map(|(i, _)| i).collect();
                if !ctx.is_empty() {
                    let i = ctx[ch.below(ctx.len())];
                    lines[i].text = other_letter(ch, k, &lines[i].text.clone());
                    if ch.chance(1, 4) && ctx.len() > 1 {
                        let j = ctx[ch.below(ctx.len())];
                        lines[j].text = other_letter(ch, k, &lines[j].text.clone());
                    }
                }
            }
            if ch.chance(1, 10) {
                let rem: Vec<usize> = lines.iter().enumerate().filter(|(_, l)| l.tag == b'-').map(|(i, _)| i).collect();
                if !rem.is_empty() {
                    let i = rem[ch.below(rem.len())];
                    lines[i].text = other_letter(ch, k, &lines[i].text.clone());
                }
            }
        } else {
            w = ch.below(n + 4);
            let len = ch.range(1, 6);
            let mut any_change = false;
            for _ in 0..len {
                let tag = *ch.pick(&[b' ', b' ', b'-', b'+']);
                any_change |= tag != b' ';
                let mut l = gen_line(ch, alpha);
                l.0.push(b'\n');
                lines.push(HLine { tag, text: l });
            }
            if !any_change {
                lines.push(HLine { tag: b'+', text: B::new("a\n") });
            }
            // keep '-' before '+' inside change blocks
            let tmp = HHunk { old_start: 0, new_start: 0, lines, omit_count_one: false, func: None, bare_empty_ctx: false, localised_marker: false };
            lines = tmp.reversed().reversed().lines;
        }
        let delta: i64 = match ch.weighted(&[6, 2, 1, 1]) {
            0 => 0,
            1 => ch.range(1, 3) as i64,
            2 => -(ch.range(1, 3) as i64),
            _ => ch.range(4, 9) as i64 - 2,
        };
        let old_cnt = lines.iter().filter(|l| l.tag != b'+').count();
        let base = if old_cnt == 0 { w as i64 } else { w as i64 + 1 };
        let old_start = (base + delta).max(0) as u64;
        specs.push((w, HHunk { old_start, new_start: 0, lines, omit_count_one: ch.chance(1, 2), func: None, bare_empty_ctx: false, localised_marker: false }));
    }
    if !shuffled {
        specs.sort_by_key(|(w, _)| *w);
    }
    // consistent new-side starts: old start + cumulative delta of earlier hunks
    let mut cum: i64 = 0;
    let mut hunks = Vec::new();
    for (_, mut h) in specs {
        let oc = h.old_count() as i64;
        let nc = h.new_count() as i64;
        let old0 = zero_based(h.old_start, oc as usize);
        let new0 = (old0 + cum).max(0);
        h.new_start = if nc == 0 { new0 as u64 } else { new0 as u64 + 1 };
        if ch.chance(1, 12) {
            // inconsistent header (hand-edited patch)
            h.new_start = ch.below(n + 3) as u64;
        }
        cum += nc - oc;
        hunks.push(h);
    }
    hunks
}

/// Generate a file and hunks in APPLY orientation, then orient them for rendering.
pub fn gen_place_case(ch: &mut Chooser, o: &GenOpts) -> PlaceCase {
    let k = ch.range(2, 4);
    let alpha = Alphabet::Small(k);
    let n = ch.below(o.max_file + 1);
    let file: Vec<B> = (0..n)
        .map(|_| {
            let mut l = gen_line(ch, alpha);
            l.0.push(b'\n');
            l
        })
        .collect();
    let reverse = ch.chance(1, 3);
    let fuzz = ch.below(o.max_fuzz + 1);
    let hunks = gen_hunks_for(ch, &file, k, o.max_hunks);
    let hunks = if reverse { hunks.iter().map(|h| h.reversed()).collect() } else { hunks };
    let fuzz2 = fuzz + 1 + ch.below(3);
    PlaceCase { file, hunks, reverse, fuzz, fuzz2, cli_threads: None, long_series: 0 }
}

/// A long file of unique lines in which the hunk matches exactly at one place far from where its header
/// says (hundreds to thousands of lines), while next to the stated position sits a decoy that matches only
/// once the outer context lines are ignored. The documented order - every offset at one fuzz level before
/// the next level - puts the hunk on the exact match, however far away it is.
pub fn gen_far_case(ch: &mut Chooser) -> PlaceCase {
    let n = ch.range(200, 4200);
    let mut file: Vec<B> = (0..n).map(|i| B::new(format!("line {}\n", i))).collect();
    let ctx = ch.range(1, 3);
    let block = |tagged: bool, level: usize| -> Vec<B> {
        // context lines whose distance from the change is > ctx - level differ in the decoy
        let mut v = Vec::new();
        for i in 0..ctx {
            let outer = ctx - i; // 1 = next to the change
            v.push(B::new(if tagged && outer > ctx - level { format!("decoy pre {}\n", i) } else { format!("pre {}\n", i) }));
        }
        v.push(B::new("old line\n"));
        for i in 0..ctx {
            let outer = i + 1;
            v.push(B::new(if tagged && outer > ctx - level { format!("decoy post {}\n", i) } else { format!("post {}\n", i) }));
        }
        v
    };
    let blen = 2 * ctx + 1;
    let level = ch.range(1, ctx);
    // positions: decoy near the stated line, true match far away on either side
    let dist = ch.range(blen + 2, n.saturating_sub(2 * blen + 4).max(blen + 3));
    let decoy_at = if ch.chance(1, 2) { ch.below(n - dist - 2 * blen + 1) } else { n - blen - ch.below(n - dist - 2 * blen + 1) };
    let true_at = if decoy_at + dist + blen <= n { decoy_at + dist } else { decoy_at - dist };
    for (i, l) in block(false, 0).into_iter().enumerate() {
        file[true_at + i] = l;
    }
    let with_decoy = ch.chance(5, 6);
    if with_decoy {
        for (i, l) in block(true, level).into_iter().enumerate() {
            file[decoy_at + i] = l;
        }
    }
    let mut lines = Vec::new();
    for i in 0..ctx {
        lines.push(HLine { tag: b' ', text: B::new(format!("pre {}\n", i)) });
    }
    lines.push(HLine { tag: b'-', text: B::new("old line\n") });
    lines.push(HLine { tag: b'+', text: B::new("new line\n") });
    for i in 0..ctx {
        lines.push(HLine { tag: b' ', text: B::new(format!("post {}\n", i)) });
    }
    let jitter = ch.below(5) as i64 - 2;
    let stated = (decoy_at as i64 + jitter).max(0) as u64 + 1;
    let h = HHunk { old_start: stated, new_start: stated, lines, omit_count_one: false, func: None, bare_empty_ctx: false, localised_marker: false };
    let reverse = ch.chance(1, 4);
    let (file, hunks) = if reverse {
        // the file then holds the NEW side at the true place
        let mut f = file;
        f[true_at + ctx] = B::new("new line\n");
        if with_decoy {
            f[decoy_at + ctx] = B::new("new line\n");
        }
        (f, vec![h])
    } else {
        (file, vec![h])
    };
    let fuzz = ch.below(level);
    PlaceCase { file, hunks, reverse, fuzz, fuzz2: fuzz + 1 + ch.below(3), cli_threads: None, long_series: 0 }
}

/// Two hunks; the full old side of the second occurs exactly only inside the region the first one has already
/// passed (there it is out of order), while at its real place the outer context differs: the lower fuzz level
/// fails as "misordered", the next level must still be tried and finds the real place.
/// A file of more than 65536 lines with two copies of the hunk's old side at (almost) the same distance before and
/// behind the expected line: the nearest one must be taken, the one behind on a tie - also in files this long.
pub fn gen_huge_tie_case(ch: &mut Chooser) -> PlaceCase {
    let n = ch.range(65536, 67000);
    let mut file: Vec<B> = (0..n).map(|i| B::new(format!("line {}\n", i))).collect();
    let ctx = ch.range(1, 2);
    let blen = 2 * ctx + 1;
    let d = ch.range(blen + 1, 3000);
    let centre = ch.range(d + 10, n - d - blen - 10);
    let skew = ch.below(3) as i64 - 1; // -1: the copy behind is nearer, 0: tie, 1: the copy in front is nearer
    let mut block = Vec::new();
    for i in 0..ctx {
        block.push(B::new(format!("pre {}\n", i)));
    }
    block.push(B::new("old line\n"));
    for i in 0..ctx {
        block.push(B::new(format!("post {}\n", i)));
    }
    for at in [centre - d, ((centre + d) as i64 + skew) as usize] {
        for (i, l) in block.iter().enumerate() {
            file[at + i] = l.clone();
        }
    }
    let mut lines = Vec::new();
    for i in 0..ctx {
        lines.push(HLine { tag: b' ', text: B::new(format!("pre {}\n", i)) });
    }
    lines.push(HLine { tag: b'-', text: B::new("old line\n") });
    lines.push(HLine { tag: b'+', text: B::new("new line\n") });
    for i in 0..ctx {
        lines.push(HLine { tag: b' ', text: B::new(format!("post {}\n", i)) });
    }
    let stated = centre as u64 + 1;
    let h = HHunk { old_start: stated, new_start: stated, lines, omit_count_one: false, func: None, bare_empty_ctx: false, localised_marker: false };
    let fuzz = ch.below(3);
    PlaceCase { file, hunks: vec![h], reverse: false, fuzz, fuzz2: fuzz + 1, cli_threads: None, long_series: 0 }
}

pub fn gen_frozen_copy_case(ch: &mut Chooser) -> PlaceCase {
    let ctx = ch.range(1, 3);
    let level = ch.range(1, ctx);
    let pre = ch.range(0, 6);
    let gap = ch.range(0, 8);
    let tail = ch.range(0, 6);
    let mut file: Vec<B> = Vec::new();
    let mut uid = 0;
    let mut uniq = |file: &mut Vec<B>, n: usize| {
        for _ in 0..n {
            file.push(B::new(format!("u{}\n", uid)));
            uid += 1;
        }
    };
    uniq(&mut file, pre);
    let block = |damaged: bool| -> Vec<B> {
        let mut v = Vec::new();
        for i in 0..ctx {
            let outer = ctx - i;
            v.push(B::new(if damaged && outer > ctx - level { format!("other pre {}\n", i) } else { format!("pre {}\n", i) }));
        }
        v.push(B::new("old line\n"));
        for i in 0..ctx {
            let outer = i + 1;
            v.push(B::new(if damaged && outer > ctx - level { format!("other post {}\n", i) } else { format!("post {}\n", i) }));
        }
        v
    };
    let copy_at = file.len();
    file.extend(block(false));
    // the line the first hunk changes, right behind the copy (its context reaches into the copy)
    let h1_at = file.len();
    file.push(B::new("first change\n"));
    uniq(&mut file, gap + ctx);
    let real_at = file.len();
    file.extend(block(true));
    uniq(&mut file, tail);
    let c1 = ch.range(0, 3).min(h1_at);
    let mut l1 = Vec::new();
    for i in (h1_at - c1)..h1_at {
        l1.push(HLine { tag: b' ', text: file[i].clone() });
    }
    l1.push(HLine { tag: b'-', text: B::new("first change\n") });
    l1.push(HLine { tag: b'+', text: B::new("first changed\n") });
    let s1 = ch.range(0, 3).min(gap + ctx);
    for i in 0..s1 {
        l1.push(HLine { tag: b' ', text: file[h1_at + 1 + i].clone() });
    }
    let h1 = HHunk { old_start: (h1_at - c1) as u64 + 1, new_start: (h1_at - c1) as u64 + 1, lines: l1, omit_count_one: false, func: None, bare_empty_ctx: false, localised_marker: false };
    let mut l2 = Vec::new();
    for i in 0..ctx {
        l2.push(HLine { tag: b' ', text: B::new(format!("pre {}\n", i)) });
    }
    l2.push(HLine { tag: b'-', text: B::new("old line\n") });
    l2.push(HLine { tag: b'+', text: B::new("new line\n") });
    for i in 0..ctx {
        l2.push(HLine { tag: b' ', text: B::new(format!("post {}\n", i)) });
    }
    let _ = copy_at;
    let h2 = HHunk { old_start: real_at as u64 + 1, new_start: real_at as u64 + 1, lines: l2, omit_count_one: false, func: None, bare_empty_ctx: false, localised_marker: false };
    let fuzz = ch.range(level, 3).max(level);
    PlaceCase { file, hunks: vec![h1, h2], reverse: false, fuzz, fuzz2: fuzz + 1 + ch.below(2), cli_threads: None, long_series: 0 }
}

pub fn run_place(case: &PlaceCase, fuzz: usize, rollback: bool) -> Result<inproc::HistoryOut, Verdict> {
    let file = join_lines(&case.file);
    let texts = vec![case.patch_text()];
    match inproc::run_history(Some(&file), None, &texts, &[Step { patch: 0, reverse: case.reverse, fuzz }], rollback) {
        Ok(Ok(h)) => Ok(h),
        Ok(Err(p)) => Err(Verdict::Fail(p)),
        Err(e) => Err(Verdict::Fail(format!("harness/generator problem: {}", e))),
    }
}

/// the parser must have seen the hunks the generator wrote
fn parsed_matches(case: &PlaceCase, h: &inproc::HistoryOut) -> Result<(), String> {
    let pf = &h.parsed[0];
    if pf.kind != "Modify" {
        return Ok(()); // create/delete classification is checked elsewhere; such cases are skipped by callers
    }
    if pf.hunks.len() != case.hunks.len() {
        return Err(format!("parser saw {} hunks, patch has {}", pf.hunks.len(), case.hunks.len()));
    }
    for (i, (ph, gh)) in pf.hunks.iter().zip(&case.hunks).enumerate() {
        if ph.old != gh.old_lines() || ph.new != gh.new_lines() {
            return Err(format!("hunk {}: parsed sides differ from the rendered hunk", i + 1));
        }
        if ph.prefix != gh.prefix_ctx() || ph.suffix != gh.suffix_ctx() {
            return Err(format!("hunk {}: parsed context counts {}/{} differ from {}/{}", i + 1, ph.prefix, ph.suffix, gh.prefix_ctx(), gh.suffix_ctx()));
        }
        let (o, n) = (zero_based(gh.old_start, gh.old_count()), zero_based(gh.new_start, gh.new_count()));
        if ph.old_line != o || ph.new_line != n {
            return Err(format!("hunk {}: parsed positions {}/{} differ from stated {}/{}", i + 1, ph.old_line, ph.new_line, o, n));
        }
    }
    Ok(())
}

// ---------------------------------------------------------------------------------- C02

pub struct C02;

/// all two-letter cases of the exhaustive sweep; returns number of cases fed
fn sweep_c02(env: &Env, sink: &mut dyn FnMut(PlaceCase) -> bool) -> (u64, bool) {
    let maxlen = env.tier.pick(5usize, 6usize);
    let mut count = 0u64;
    let mut idx = 0u64;
    let letters = [B::new("a\n"), B::new("b\n")];
    for len in 0..=maxlen {
        for bits in 0..(1u32 << len) {
            let file: Vec<B> = (0..len).map(|i| letters[((bits >> i) & 1) as usize].clone()).collect();
            // hunk shapes: p,s in 0..=2, removed 0..=1, added 0..=1 (not both 0), content bits
            for p in 0..=2usize {
                for s in 0..=2usize {
                    for r in 0..=1usize {
                        for a in 0..=1usize {
                            if r + a == 0 {
                                continue;
                            }
                            let total = p + r + a + s;
                            for cb in 0..(1u32 << total) {
                                idx += 1;
                                if idx % SHARDS as u64 != env.shard as u64 {
                                    continue;
                                }
                                let mut lines = Vec::new();
                                let mut bi = 0;
                                let mut push = |tag: u8, lines: &mut Vec<HLine>| {
                                    lines.push(HLine { tag, text: letters[((cb >> bi) & 1) as usize].clone() });
                                    bi += 1;
                                };
                                for _ in 0..p {
                                    push(b' ', &mut lines);
                                }
                                for _ in 0..r {
                                    push(b'-', &mut lines);
                                }
                                for _ in 0..a {
                                    push(b'+', &mut lines);
                                }
                                for _ in 0..s {
                                    push(b' ', &mut lines);
                                }
                                let oc = p + r + s;
                                let nc = p + a + s;
                                for stated in 0..=(len + 2) {
                                    // stated = zero-based intended position
                                    let old_start = if oc == 0 { stated as u64 } else { stated as u64 + 1 };
                                    let new_start = if nc == 0 { stated as u64 } else { stated as u64 + 1 };
                                    for fuzz in 0..=2usize {
                                        if fuzz > p.max(s) {
                                            continue;
                                        }
                                        count += 1;
                                        let case = PlaceCase {
                                            file: file.clone(),
                                            hunks: vec![HHunk { old_start, new_start, lines: lines.clone(), omit_count_one: false, func: None, bare_empty_ctx: false, localised_marker: false }],
                                            reverse: false,
                                            fuzz,
                                            fuzz2: fuzz + 1,
                                            cli_threads: None,
                                            long_series: 0,
                                        };
                                        if !sink(case) {
                                            return (count, false);
                                        }
                                    }
                                }
                            }
                        }
                    }
                }
            }
        }
    }
    (count, true)
}

/// is there an admissible position at level f? (None = cannot say under the lenient readings)
fn admissible_exists(file: &[B], h: &MHunk, f: usize, last_offset: i64, frozen: i64, cx: &mut CaseCtx) -> Option<bool> {
    let v = h.view(f);
    if v.old.len() > file.len() {
        return Some(false);
    }
    if v.p < v.s {
        let (o1, n1) = (h.old_pos == 0, h.new_pos == 0);
        if o1 != n1 {
            cx.skip("start-anchor-side-ambiguous");
            return None;
        }
        if o1 && n1 {
            return Some(matches_at(file, v.old, 0) && v.p as i64 > frozen);
        }
    }
    if v.p > v.s {
        let at = file.len() as i64 - v.old.len() as i64;
        if !matches_at(file, v.old, at) {
            return Some(false);
        }
        if at + v.p as i64 <= frozen {
            cx.skip("misordered-level");
            return None;
        }
        return Some(true);
    }
    let m = all_matches(file, v.old);
    if m.is_empty() {
        return Some(false);
    }
    // nearest under either distance reading
    let e = h.old_pos + last_offset;
    let n1 = nearest(&m, e).unwrap();
    let n2 = nearest(&m, e + v.pt as i64).unwrap();
    let mis1 = n1 + v.p as i64 <= frozen;
    let mis2 = n2 + v.p as i64 <= frozen;
    if mis1 || mis2 {
        cx.skip("misordered-level");
        return None;
    }
    Some(true)
}

pub fn check_c02(case: &PlaceCase, cx: &mut CaseCtx) -> Verdict {
    let h = match run_place(case, case.fuzz, false) {
        Ok(h) => h,
        Err(v) => return v,
    };
    if h.parsed[0].kind != "Modify" {
        cx.label("kind-not-modify");
        return Verdict::Pass;
    }
    if let Err(e) = parsed_matches(case, &h) {
        return Verdict::Fail(format!("parser: {}", e));
    }
    let file = &case.file;
    let mh = case.mhunks();
    let reps = &h.steps[0].reps;
    if reps.len() != mh.len() {
        return Verdict::Fail(format!("{} reports for {} hunks", reps.len(), mh.len()));
    }
    let mut last_offset = 0i64;
    let mut frozen = -1i64;
    for (i, (m, r)) in mh.iter().zip(reps).enumerate() {
        let tag = format!("hunk {}", i + 1);
        let levels = case.fuzz.min(m.max_fuzz());
        match r {
            Rep::Applied { line, offset, fuzz, .. } => {
                let (line, fz) = (*line, *fuzz);
                if fz > case.fuzz || fz > m.max_fuzz() {
                    return Verdict::Fail(format!("{}: applied with fuzz {} (limit {}, usable {})", tag, fz, case.fuzz, m.max_fuzz()));
                }
                let v = m.view(fz);
                if !matches_at(file, v.old, line) {
                    return Verdict::Fail(format!(
                        "{}: reported applied at line {} fuzz {} but the old side (minus trimmed context) is not there: wanted {:?}, file has {:?}",
                        tag,
                        line,
                        fz,
                        esc(&join_lines(v.old)),
                        esc(&join_lines(&file[(line.max(0) as usize).min(file.len())..((line.max(0) as usize) + v.old.len()).min(file.len())]))
                    ));
                }
                if case.fuzz == 0 && (v.pt != 0 || v.st != 0) {
                    return Verdict::Fail(format!("{}: context trimmed at fuzz limit 0", tag));
                }
                if *offset != line - m.old_pos && *offset != line - (m.old_pos + v.pt as i64) {
                    return Verdict::Fail(format!("{}: reported offset {} inconsistent with line {} and stated {}", tag, offset, line, m.old_pos));
                }
                // anchoring
                let mut anchored = false;
                if v.p > v.s {
                    anchored = true;
                    cx.label("anchored-end");
                    if line + v.old.len() as i64 != file.len() as i64 {
                        return Verdict::Fail(format!("{}: end-anchored hunk (prefix ctx {} > suffix ctx {}) applied at line {}, not at the end of a {}-line file", tag, v.p, v.s, line, file.len()));
                    }
                } else if v.p < v.s && (m.old_pos == 0 || m.new_pos == 0) {
                    if m.old_pos == 0 && m.new_pos == 0 {
                        anchored = true;
                        cx.label("anchored-start");
                        if line != 0 {
                            return Verdict::Fail(format!("{}: start-anchored hunk applied at line {}", tag, line));
                        }
                    } else {
                        cx.skip("start-anchor-side-ambiguous");
                        anchored = true; // do not apply the nearest rule either
                    }
                }
                let all = all_matches(file, v.old);
                if !anchored {
                    let e = m.old_pos + last_offset;
                    let ok1 = nearest(&all, e) == Some(line);
                    let ok2 = nearest(&all, e + v.pt as i64) == Some(line);
                    if !ok1 && !ok2 {
                        return Verdict::Fail(format!("{}: applied at line {} but the match nearest to the expected line {} (forward winning ties) is {:?}; all matches {:?}", tag, line, e, nearest(&all, e), all));
                    }
                    if !ok1 || !ok2 {
                        cx.skip("distance-reading-differs");
                    }
                    let d = (line - e).abs();
                    cx.label_if(all.iter().any(|&x| x != line && (x - e).abs() == d), "tie");
                }
                // lowest level
                for f in 0..fz {
                    if admissible_exists(file, m, f, last_offset, frozen, cx) == Some(true) {
                        return Verdict::Fail(format!("{}: applied with fuzz {} although fuzz {} already admits a position", tag, fz, f));
                    }
                }
                if all.len() >= 2 || line != m.old_pos || fz > 0 || anchored {
                    cx.nontrivial = true;
                }
                cx.label_if(all.len() >= 2, "ambiguous>=2-matches");
                cx.label_if(fz > 0, &format!("fuzz-used-{}", fz));
                cx.label_if(last_offset != 0, "carried-offset");
                cx.label_if(line != m.old_pos, "offset!=0");
                last_offset = line - m.old_pos;
                frozen = line + v.old.len() as i64 - v.s as i64;
            }
            Rep::Failed(reason) if reason == "NoMatchingLines" => {
                cx.label("failed-no-match");
                cx.label_if(m.old_pos as usize > file.len(), "stated-beyond-eof");
                for f in 0..=levels {
                    if admissible_exists(file, m, f, last_offset, frozen, cx) == Some(true) {
                        return Verdict::Fail(format!("{}: reported NoMatchingLines although fuzz level {} (limit {}) admits a position", tag, f, case.fuzz));
                    }
                }
                if levels > 0 {
                    cx.nontrivial = true;
                }
            }
            Rep::Failed(reason) if reason == "MisorderedHunks" => {
                cx.label("failed-misordered");
                // there must indeed be a match whose changed lines start inside the frozen part
                let mut justified = false;
                for f in 0..=levels {
                    let v = m.view(f);
                    if all_matches(file, v.old).iter().any(|&x| x + v.p as i64 <= frozen) {
                        justified = true;
                    }
                }
                if !justified {
                    return Verdict::Fail(format!("{}: reported MisorderedHunks but no match at any level touches frozen lines (frozen {})", tag, frozen));
                }
            }
            other => return Verdict::Fail(format!("{}: unexpected report {:?}", tag, other)),
        }
    }
    Verdict::Pass
}

impl Prop for C02 {
    type Case = PlaceCase;
    fn id(&self) -> &'static str {
        "C02"
    }
    fn rule(&self) -> String {
        "random: files of 0..12 (thorough ..30) lines over a 2-4 letter alphabet, 1-4 hunks cut from the file and perturbed (context lines altered => fuzz needed; removed lines altered => must fail) or free-form, stated lines exact/shifted/beyond EOF, sorted or shuffled, fuzz limit 0..3, both directions; sweep: every single hunk with prefix/suffix context <=2, <=1 removed and <=1 added line over {a,b}, every file over {a,b} up to length 5 (thorough 6), every stated line 0..len+2, every fuzz limit <=2 (exhaustive). Oracle: brute-force reference of the patch(1) rules: reported position really holds the (trimmed) old side, anchoring, nearest match with forward ties, lowest admissible fuzz level, NoMatchingLines only when no level admits a position. non-trivial = >=2 candidate positions, or offset != 0, or fuzz > 0, or anchored, or a failure with fuzz levels to try; distinct = distinct case".into()
    }
    fn assumptions(&self) -> Vec<String> {
        vec![
            "lenient zones (counted in lenient_skips): distance may be measured with or without the trimmed prefix; 'first line number is 1' is only enforced when both sides say so; fuzz levels whose nearest match is rejected as misordered are skipped for the lowest-level and completeness clauses".into(),
            "hunks without any changed line are not generated (no diff produces them)".into(),
        ]
    }
    fn budget(&self, tier: Tier) -> (u32, usize) {
        (tier.pick(30000, 400000), 160)
    }
    fn sweep(&self, env: &Env, sink: &mut dyn FnMut(PlaceCase) -> bool) -> Option<SweepInfo> {
        let (n, complete) = sweep_c02(env, sink);
        let _ = n;
        Some(SweepInfo { description: format!("all single hunks (ctx<=2, <=1 removed, <=1 added) x all files over {{a,b}} up to length {} x stated line x fuzz<=2", env.tier.pick(5, 6)), exhaustive: complete })
    }
    fn build(&self, ch: &mut Chooser, cx: &mut CaseCtx) -> PlaceCase {
        let o = GenOpts { max_file: cx.env.tier.pick(12, 30), max_hunks: 4, max_fuzz: 3 };
        if ch.chance(1, 40) {
            return gen_far_case(ch);
        }
        if ch.chance(1, 40) {
            return gen_frozen_copy_case(ch);
        }
        if ch.chance(1, 400) {
            return gen_huge_tie_case(ch);
        }
        gen_place_case(ch, &o)
    }
    fn check(&self, case: &PlaceCase, cx: &mut CaseCtx) -> Verdict {
        check_c02(case, cx)
    }
}

// ---------------------------------------------------------------------------------- C03

pub struct C03;

pub fn placements(reps: &[Rep]) -> Vec<Option<(i64, usize)>> {
    reps.iter()
        .map(|r| match r {
            Rep::Applied { line, fuzz, .. } => Some((*line, *fuzz)),
            _ => None,
        })
        .collect()
}

/// K1 signature (a): some later applied hunk's SPAN starts before the end of an earlier
/// applied hunk's changed region; (b) a later hunk's changed region starts inside an earlier
/// applied hunk's trailing context.
pub fn k1_shape(mh: &[MHunk], pl: &[Option<(i64, usize)>]) -> (bool, bool) {
    let mut a = false;
    let mut b = false;
    for i in 0..mh.len() {
        let Some((li, fi)) = pl[i] else { continue };
        let (_, end_i) = changed_region(&mh[i], li, fi);
        let vi = mh[i].view(fi);
        let span_end_i = li + vi.old.len() as i64;
        for j in (i + 1)..mh.len() {
            let Some((lj, fj)) = pl[j] else { continue };
            let (cs, _) = changed_region(&mh[j], lj, fj);
            if lj < end_i {
                a = true;
            }
            if cs < span_end_i && cs >= end_i {
                b = true;
            }
        }
    }
    (a, b)
}

impl Prop for C03 {
    type Case = PlaceCase;
    fn id(&self) -> &'static str {
        "C03"
    }
    fn rule(&self) -> String {
        "files of 0..12 (thorough ..30) lines over a 2-4 letter alphabet with 2-4 hunks cut from neighbouring/overlapping windows (contexts overlap contexts and changed lines), sorted or shuffled, fuzz 0..2, both directions. Oracle: reconstruction from the hunk reports, independent of the splice code: original with each applied hunk's changed region [line+p', line+len'-s') replaced by its added lines, everything else byte-identical and in order; changed regions must be increasing and disjoint; failed hunks contribute nothing; the sum of reported line-count differences equals the length change. non-trivial = >=2 hunks applied and (some offset != 0, or two spans overlap, or a failed hunk sits between applied ones); distinct = distinct case".into()
    }
    fn assumptions(&self) -> Vec<String> {
        vec!["the reconstruction uses the positions/fuzz the implementation reports (their correctness is C02's subject)".into()]
    }
    fn budget(&self, tier: Tier) -> (u32, usize) {
        (tier.pick(30000, 400000), 160)
    }
    fn build(&self, ch: &mut Chooser, cx: &mut CaseCtx) -> PlaceCase {
        let o = GenOpts { max_file: cx.env.tier.pick(12, 30), max_hunks: 4, max_fuzz: 2 };
        let mut c = gen_place_case(ch, &o);
        if c.hunks.len() < 2 && ch.chance(3, 4) {
            let c2 = gen_place_case(ch, &o);
            if c2.hunks.len() >= 2 {
                c = c2;
            }
        }
        c
    }
    fn check(&self, case: &PlaceCase, cx: &mut CaseCtx) -> Verdict {
        let h = match run_place(case, case.fuzz, false) {
            Ok(h) => h,
            Err(v) => return v,
        };
        if h.parsed[0].kind != "Modify" {
            cx.label("kind-not-modify");
            return Verdict::Pass;
        }
        let mh = case.mhunks();
        let st = &h.steps[0];
        let pl = placements(&st.reps);
        let expected = match reconstruct(&case.file, &mh, &pl) {
            Ok(e) => e,
            Err(e) => return Verdict::Fail(format!("applied hunks do not describe an ordered edit: {}", e)),
        };
        let applied = pl.iter().filter(|p| p.is_some()).count();
        let (ka, kb) = k1_shape(&mh, &pl);
        cx.label_if(ka, "later-span-starts-inside-earlier-change");
        cx.label_if(kb, "later-change-inside-earlier-trailing-context");
        // spans overlap?
        let mut overlap = false;
        let mut prev_end = i64::MIN;
        for (m, p) in mh.iter().zip(&pl) {
            if let Some((l, f)) = p {
                if *l < prev_end {
                    overlap = true;
                }
                prev_end = prev_end.max(*l + m.view(*f).old.len() as i64);
            }
        }
        cx.label_if(overlap, "spans-overlap");
        let any_offset = st.reps.iter().any(|r| matches!(r, Rep::Applied{offset,..} if *offset != 0));
        let failed_between = {
            let first = pl.iter().position(|p| p.is_some());
            let last = pl.iter().rposition(|p| p.is_some());
            match (first, last) {
                (Some(a), Some(b)) => pl[a..=b].iter().any(|p| p.is_none()),
                _ => false,
            }
        };
        cx.label_if(failed_between, "failed-between-applied");
        cx.label_if(any_offset, "offset!=0");
        if applied >= 2 && (any_offset || overlap || failed_between) {
            cx.nontrivial = true;
        }
        if st.after.lines != expected {
            return Verdict::Fail(format!(
                "file after apply differs from the reconstruction from the reports: got {:?} expected {:?} (original {:?}, reports {:?})",
                esc(&st.after.bytes()),
                esc(&join_lines(&expected)),
                esc(&join_lines(&case.file)),
                st.reps
            ));
        }
        let lcd: i64 = st.reps.iter().map(|r| if let Rep::Applied { lcd, .. } = r { *lcd } else { 0 }).sum();
        if lcd != st.after.lines.len() as i64 - case.file.len() as i64 {
            return Verdict::Fail(format!("sum of reported line-count differences {} != actual length change {}", lcd, st.after.lines.len() as i64 - case.file.len() as i64));
        }
        Verdict::Pass
    }
    fn known_signature(&self, case: &PlaceCase, msg: &str) -> Option<&'static str> {
        // K1(a): only when the reference placement shows a later applied hunk's span starting
        // before the end of an earlier applied hunk's changed region
        let mh = case.mhunks();
        let model = place_all(&case.file, &mh, case.fuzz);
        let pl: Vec<Option<(i64, usize)>> = model.iter().map(|r| if let MRep::Applied { line, fuzz } = r { Some((*line, *fuzz)) } else { None }).collect();
        let (a, _) = k1_shape(&mh, &pl);
        if a && (msg.contains("differs from the reconstruction") || msg.contains("PANIC in apply")) {
            return Some("KF-K1a-prefix-context-over-changed-lines");
        }
        None
    }
}

// ---------------------------------------------------------------------------------- C20 (in-process)

pub struct C20;

impl Prop for C20 {
    type Case = PlaceCase;
    fn id(&self) -> &'static str {
        "C20"
    }
    fn rule(&self) -> String {
        "in-process: the C02 generator (hunks needing fuzz 0..2 through perturbed context, asymmetric and context-free hunks) plus long files (200-4200 unique lines) whose exact match lies hundreds to thousands of lines from the stated position with a decoy needing fuzz next to it, and two-hunk patches whose second hunk matches exactly only inside the region the first has passed, with a pair of limits F < F' <= F+3 (1 in 5: huge F'); CLI: the same file patch at the head of a short series - 1 in 10 followed by 101-106 further patches, more than the default number of backups - pushed with --fuzz F and --fuzz F'. Oracle (metamorphic): if the run with F applies every hunk, the run with F' applies every hunk and yields the identical file (CLI: identical tree, .pc and exit status 0). non-trivial = the F run succeeded and some hunk could use more fuzz than it applied with and than F; distinct = distinct case".into()
    }
    fn assumptions(&self) -> Vec<String> {
        vec!["only complete successes at F constrain the F' run".into()]
    }
    fn budget(&self, tier: Tier) -> (u32, usize) {
        (tier.pick(30000, 400000), 160)
    }
    fn build(&self, ch: &mut Chooser, cx: &mut CaseCtx) -> PlaceCase {
        let o = GenOpts { max_file: cx.env.tier.pick(12, 30), max_hunks: 3, max_fuzz: 2 };
        if ch.chance(1, 24) {
            let mut c = if ch.chance(1, 3) { gen_frozen_copy_case(ch) } else { gen_far_case(ch) };
            if ch.chance(1, 16) {
                c.cli_threads = Some(*ch.pick(&[1usize, 2, 4]));
            }
            return c;
        }
        let mut c = gen_place_case(ch, &o);
        // prefer cases that succeed at F: retry a few times
        for _ in 0..2 {
            let ok = place_all(&c.file, &c.mhunks(), c.fuzz).iter().all(|r| matches!(r, MRep::Applied { .. }));
            if ok {
                break;
            }
            c = gen_place_case(ch, &o);
        }
        if ch.chance(1, 16) {
            c.cli_threads = Some(*ch.pick(&[1usize, 2, 4]));
            if ch.chance(1, 10) {
                c.long_series = ch.range(101, 106);
                c.fuzz = 0;
                c.fuzz2 = ch.range(1, 3);
                return c;
            }
        }
        // "every limit F' > F": also very large ones (in-process only values whose misuse as a size
        // panics instead of exhausting memory)
        if ch.chance(1, 5) {
            c.fuzz2 = if c.cli_threads.is_some() {
                *ch.pick(&[255usize, 256, 257, 65535, 65536, 4294967296, 10_000_000_000_000, 9223372036854775807, 18446744073709551615])
            } else {
                *ch.pick(&[4611686018427387904usize, 9223372036854775807, 18446744073709551615])
            };
        }
        c
    }
    fn check(&self, case: &PlaceCase, cx: &mut CaseCtx) -> Verdict {
        let h1 = match run_place(case, case.fuzz, false) {
            Ok(h) => h,
            Err(v) => return v,
        };
        if !h1.steps[0].ok {
            cx.label("F-run-failed");
            return Verdict::Pass;
        }
        cx.label_if(case.file.len() >= 200, "long-file-far-offset-with-decoy");
        let f2 = case.fuzz2.max(case.fuzz + 1);
        let h2 = match run_place(case, f2, false) {
            Ok(h) => h,
            Err(v) => return v,
        };
        cx.evals += 1;
        let mh = case.mhunks();
        let headroom = mh.iter().zip(&h1.steps[0].reps).any(|(m, r)| matches!(r, Rep::Applied{fuzz,..} if m.max_fuzz() > *fuzz && m.max_fuzz() > case.fuzz));
        if headroom {
            cx.nontrivial = true;
        }
        cx.label_if(h1.steps[0].reps.iter().any(|r| matches!(r, Rep::Applied{fuzz,..} if *fuzz>0)), "fuzz-used-at-F");
        if !h2.steps[0].ok {
            return Verdict::Fail(format!("applies completely with fuzz {} but not with fuzz {}: {:?}", case.fuzz, f2, h2.steps[0].reps));
        }
        let key = |r: &Rep| if let Rep::Applied { line, fuzz, .. } = r { Some((*line, *fuzz)) } else { None };
        let k1: Vec<_> = h1.steps[0].reps.iter().map(key).collect();
        let k2: Vec<_> = h2.steps[0].reps.iter().map(key).collect();
        // (the per-hunk positions/levels are internal; only the outcome is compared)
        cx.label_if(k1 != k2, "same-result-different-report");
        if h1.steps[0].after != h2.steps[0].after {
            return Verdict::Fail(format!("result differs between fuzz {} and {}", case.fuzz, f2));
        }
        if let Some(threads) = case.cli_threads {
            cx.label("cli");
            let mut snaps = Vec::new();
            for f in [case.fuzz, f2] {
                let mut tree = ws::Tree::default();
                tree.files.insert("f".into(), ws::TFile { data: B(join_lines(&case.file)), mode: 0o644 });
                tree.files.insert("g".into(), ws::TFile { data: B::new("x\n"), mode: 0o644 });
                let mut series = format!("p.patch -p1{}\nq.patch\n", if case.reverse { " -R" } else { "" });
                let q: &[u8] = b"--- a/g\n+++ b/g\n@@ -1 +1 @@\n-x\n+y\n";
                let mut patches = vec![("p.patch".to_string(), B(case.patch_text())), ("q.patch".to_string(), B::new(q))];
                for k in 0..case.long_series {
                    patches.push((format!("n{:03}.patch", k), B(format!("--- /dev/null\n+++ b/new/n{:03}\n@@ -0,0 +1 @@\n+x\n", k).into_bytes())));
                    series.push_str(&format!("n{:03}.patch\n", k));
                }
                cx.label_if(case.long_series > 0, "cli-series-longer-than-the-default-backup-count");
                let spec = ws::WsSpec { tree, patches, series: B::new(series), applied: None, dirs: vec![], symlinks: vec![] };
                let root = cx.env.fresh_dir("c20-");
                spec.materialise(&root);
                let mut args = ws::base_args(threads);
                args.extend(["-a".to_string(), "-q".to_string(), "--backup".to_string(), "always".to_string()]);
                if f > 0 || case.fuzz2 % 2 == 0 {
                    args.extend(["--fuzz".to_string(), f.to_string()]);
                }
                let out = ws::run_bin(&cx.env.bin, &root, &args, &Default::default(), &cx.env.scratch);
                cx.evals += 1;
                let snap = ws::snapshot(&root);
                ws::rm_rf(&root);
                if out.exit == ws::Exit::Timeout {
                    return Verdict::Inconclusive("watchdog".into());
                }
                snaps.push((out, snap));
            }
            if snaps[0].0.exit == ws::Exit::Code(0) {
                if snaps[1].0.exit != ws::Exit::Code(0) {
                    return Verdict::Fail(format!("push succeeds with --fuzz {} but exits {:?} with --fuzz {}: {}", case.fuzz, snaps[1].0.exit, f2, ws::lossy(&snaps[1].0.stderr)));
                }
                if let Some(d) = ws::diff_maps(&ws::files_of(&snaps[0].1), &ws::files_of(&snaps[1].1), true) {
                    return Verdict::Fail(format!("tree/metadata differ between --fuzz {} and --fuzz {}: {}", case.fuzz, f2, d));
                }
            } else if snaps[0].0.exit.is_crash() {
                return Verdict::Fail(format!("push crashed with --fuzz {}: {:?}", case.fuzz, snaps[0].0.exit));
            }
        }
        Verdict::Pass
    }
}
