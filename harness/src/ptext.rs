//! Rendering of file patches / patch files in the header dialects the tool accepts.

use crate::bytes::B;
use crate::diff::HHunk;
use serde::{Deserialize, Serialize};

#[derive(Clone, Debug, PartialEq, Serialize, Deserialize, Default)]
pub struct FilePatchSpec {
    /// garbage lines (each with terminator) emitted before this file patch
    #[serde(default)]
    pub garbage: Vec<B>,
    /// `Index: <name>` + `====` preamble
    #[serde(default)]
    pub index_preamble: Option<B>,
    /// `diff --git <a> <b>` names, already prefixed/quoted as they should appear
    #[serde(default)]
    pub git: Option<(B, B)>,
    /// extended header lines (without terminator), e.g. `new file mode 100644`
    #[serde(default)]
    pub git_meta: Vec<B>,
    /// text after `--- ` up to end of line (name, optional TAB + timestamp); None = no ---/+++ lines
    #[serde(default)]
    pub minus: Option<B>,
    #[serde(default)]
    pub plus: Option<B>,
    pub hunks: Vec<HHunk>,
}

impl FilePatchSpec {
    pub fn render(&self, out: &mut Vec<u8>) {
        for g in &self.garbage {
            out.extend_from_slice(g);
        }
        if let Some(n) = &self.index_preamble {
            out.extend_from_slice(b"Index: ");
            out.extend_from_slice(n);
            out.extend_from_slice(b"\n===================================================================\n");
        }
        if let Some((a, b)) = &self.git {
            out.extend_from_slice(b"diff --git ");
            out.extend_from_slice(a);
            out.push(b' ');
            out.extend_from_slice(b);
            out.push(b'\n');
        }
        for m in &self.git_meta {
            out.extend_from_slice(m);
            out.push(b'\n');
        }
        if let Some(m) = &self.minus {
            out.extend_from_slice(b"--- ");
            out.extend_from_slice(m);
            out.push(b'\n');
        }
        if let Some(p) = &self.plus {
            out.extend_from_slice(b"+++ ");
            out.extend_from_slice(p);
            out.push(b'\n');
        }
        for h in &self.hunks {
            h.render(out);
        }
    }
}

pub fn render_patch(fps: &[FilePatchSpec]) -> Vec<u8> {
    let mut out = Vec::new();
    for f in fps {
        f.render(&mut out);
    }
    out
}

/// C-style quoting as git / GNU diff produce it.
pub fn c_quote(name: &[u8]) -> Vec<u8> {
    let mut v = vec![b'"'];
    for &c in name {
        match c {
            b'"' => v.extend_from_slice(b"\\\""),
            b'\\' => v.extend_from_slice(b"\\\\"),
            b'\t' => v.extend_from_slice(b"\\t"),
            b'\n' => v.extend_from_slice(b"\\n"),
            0x20..=0x7e => v.push(c),
            _ => v.extend_from_slice(format!("\\{:03o}", c).as_bytes()),
        }
    }
    v.push(b'"');
    v
}

/// Quote every byte as an octal escape (a spelling GNU patch also accepts).
pub fn c_quote_octal(name: &[u8]) -> Vec<u8> {
    let mut v = vec![b'"'];
    for &c in name {
        v.extend_from_slice(format!("\\{:03o}", c).as_bytes());
    }
    v.push(b'"');
    v
}

pub fn needs_quote(name: &[u8]) -> bool {
    name.iter().any(|&c| c == b' ' || c == b'\t' || c == b'"' || c == b'\\' || c < 0x20 || c >= 0x7f)
}

pub const TS_OLD: &str = "2019-03-01 10:11:12.000000000 +0100";
pub const TS_NEW: &str = "2019-03-02 11:12:13.123456789 +0100";
pub const TS_EPOCH: &str = "1970-01-01 01:00:00.000000000 +0100";
