//! Invoking `rapidquilt push` on a materialised workspace and observing the outcome.

use crate::choose::Chooser;
use crate::diff::HHunk;
use crate::engine::CaseCtx;
use crate::model::zero_based;
use crate::ws::{self, Exit, RunOpts, RunOut, Snapshot};
use serde::{Deserialize, Serialize};
use std::collections::BTreeMap;
use std::path::Path;

#[derive(Clone, Debug, Serialize, Deserialize, PartialEq)]
pub enum Goal {
    /// `-a`
    All,
    /// no argument: one patch
    Next,
    Count(usize),
    Name(String),
}

#[derive(Clone, Debug, Serialize, Deserialize, PartialEq)]
pub struct PushOpts {
    pub threads: usize,
    /// always | onfail | never | "" (default = onfail)
    pub backup: String,
    /// all | <n> | "" (default 100)
    pub backup_count: String,
    pub fuzz: Option<usize>,
    pub mmap: bool,
    /// "" | -q | -v | -vv
    pub verbosity: String,
    pub dry_run: bool,
    pub goal: Goal,
    #[serde(default)]
    pub extra: Vec<String>,
    /// run from the parent directory and name the workspace with `-d <dir>`
    #[serde(default)]
    pub via_d: bool,
}

impl Default for PushOpts {
    fn default() -> Self {
        PushOpts { threads: 1, backup: String::new(), backup_count: String::new(), fuzz: None, mmap: false, verbosity: "-q".into(), dry_run: false, goal: Goal::All, extra: vec![], via_d: false }
    }
}

impl PushOpts {
    pub fn args(&self) -> Vec<String> {
        let mut a = ws::base_args(self.threads);
        if self.extra.iter().any(|x| x == "--color") {
            // the option may be given only once
            a.retain(|x| x != "--color" && x != "never");
        }
        if !self.backup.is_empty() {
            a.push("--backup".into());
            a.push(self.backup.clone());
        }
        if !self.backup_count.is_empty() {
            a.push("--backup-count".into());
            a.push(self.backup_count.clone());
        }
        if let Some(f) = self.fuzz {
            a.push("--fuzz".into());
            a.push(f.to_string());
        }
        if self.mmap {
            a.push("--mmap".into());
        }
        if !self.verbosity.is_empty() {
            a.push(self.verbosity.clone());
        }
        if self.dry_run {
            a.push("--dry-run".into());
        }
        a.extend(self.extra.iter().cloned());
        match &self.goal {
            Goal::All => a.push("-a".into()),
            Goal::Next => {}
            Goal::Count(n) => a.push(n.to_string()),
            Goal::Name(s) => a.push(s.clone()),
        }
        a
    }
    /// how many patches of a series of `n` with `first` already applied does this goal request?
    pub fn requested(&self, names: &[String], first: usize) -> usize {
        let n = names.len();
        match &self.goal {
            Goal::All => n - first,
            Goal::Next => 1.min(n - first),
            Goal::Count(c) => (*c).min(n - first),
            Goal::Name(s) => names.iter().position(|x| x == s).map(|i| (i + 1).saturating_sub(first)).unwrap_or(0),
        }
    }
}

pub fn gen_opts(ch: &mut Chooser, multi_thread_ok: bool) -> PushOpts {
    let threads = if multi_thread_ok { *ch.pick(&[1usize, 1, 2, 2, 3, 4, 8, 16]) } else { 1 };
    PushOpts {
        threads,
        backup: ch.pick(&["", "always", "onfail", "never"]).to_string(),
        backup_count: ch.pick(&["", "", "all", "0", "1", "2"]).to_string(),
        fuzz: if ch.chance(1, 6) { Some(ch.range(1, 3)) } else { None },
        mmap: ch.chance(1, 5),
        verbosity: ch.pick(&["-q", "-q", "", "-v"]).to_string(),
        dry_run: false,
        goal: Goal::All,
        extra: vec![],
        via_d: ch.chance(1, 6),
    }
}

pub struct Observed {
    pub out: RunOut,
    pub snap: Snapshot,
}

pub fn push(cx: &mut CaseCtx, root: &Path, o: &PushOpts, ro: &RunOpts) -> Observed {
    let out = if o.via_d && root.parent().is_some() && root.file_name().is_some() {
        // same push, but started in the parent directory with -d <workspace>
        let mut a = o.args();
        let name = root.file_name().unwrap().to_string_lossy().into_owned();
        a.insert(1, name);
        a.insert(1, "-d".to_string());
        ws::run_bin(&cx.env.bin, root.parent().unwrap(), &a, ro, &cx.env.scratch)
    } else {
        ws::run_bin(&cx.env.bin, root, &o.args(), ro, &cx.env.scratch)
    };
    cx.evals += 1;
    let snap = ws::snapshot(root);
    Observed { out, snap }
}

/// (rejects, other user files)
pub fn split_rejects(files: BTreeMap<String, (Vec<u8>, u32)>) -> (BTreeMap<String, (Vec<u8>, u32)>, BTreeMap<String, (Vec<u8>, u32)>) {
    let mut rej = BTreeMap::new();
    let mut rest = BTreeMap::new();
    for (k, v) in files {
        if k.ends_with(".rej") {
            rej.insert(k, v);
        } else {
            rest.insert(k, v);
        }
    }
    (rej, rest)
}

pub fn crash_or_timeout(e: &Exit) -> Option<String> {
    match e {
        Exit::Code(0) | Exit::Code(1) => None,
        Exit::Timeout => Some("timeout".into()),
        other => Some(format!("{:?}", other)),
    }
}

/// The harness's own minimal reader of unified reject files: returns the hunks
/// (old side, new side, zero-based old/new positions) and the ---/+++ names.
#[derive(Debug, Clone, PartialEq)]
pub struct RejHunk {
    pub old: Vec<Vec<u8>>,
    pub new: Vec<Vec<u8>>,
    pub old_pos: i64,
    pub new_pos: i64,
}

#[derive(Debug, Clone, PartialEq)]
pub struct RejFile {
    pub minus: Vec<u8>,
    pub plus: Vec<u8>,
    pub hunks: Vec<RejHunk>,
    /// number of ---/+++ sections (more than one when the failing patch has several entries for the file)
    pub sections: usize,
}

pub fn read_rej(data: &[u8]) -> Result<RejFile, String> {
    let lines = crate::bytes::split_lines(data);
    let mut i = 0;
    let mut minus = None;
    let mut plus = None;
    while i < lines.len() {
        let l = &lines[i];
        if l.starts_with(b"--- ") && minus.is_none() {
            minus = Some(l[4..].strip_suffix(b"\n").unwrap_or(&l[4..]).to_vec());
        } else if l.starts_with(b"+++ ") && minus.is_some() {
            plus = Some(l[4..].strip_suffix(b"\n").unwrap_or(&l[4..]).to_vec());
            i += 1;
            break;
        }
        i += 1;
    }
    let (minus, plus) = match (minus, plus) {
        (Some(m), Some(p)) => (m, p),
        _ => return Err("no ---/+++ header in reject file".into()),
    };
    let mut hunks = Vec::new();
    let mut sections = 1;
    while i < lines.len() {
        let l = &lines[i];
        if [&b"diff --git "[..], b"index ", b"old mode ", b"new mode ", b"new file mode ", b"deleted file mode ", b"similarity index ", b"rename from ", b"rename to "].iter().any(|p| l.starts_with(p)) {
            // git's extended header of another entry
            i += 1;
            continue;
        }
        if l.starts_with(b"--- ") && i + 1 < lines.len() && lines[i + 1].starts_with(b"+++ ") {
            // the hunks of another entry for the same file
            sections += 1;
            i += 2;
            continue;
        }
        let s = String::from_utf8_lossy(l).into_owned();
        let Some(rest) = s.strip_prefix("@@ -") else { return Err(format!("expected hunk header, found {:?}", s)) };
        let parse_range = |t: &str| -> Option<(u64, usize)> {
            let mut it = t.split(',');
            let a = it.next()?.parse::<u64>().ok()?;
            let b = match it.next() {
                Some(x) => x.parse::<usize>().ok()?,
                None => 1,
            };
            Some((a, b))
        };
        let mut parts = rest.split(' ');
        let o = parts.next().and_then(parse_range).ok_or_else(|| format!("bad hunk header {:?}", s))?;
        let n = parts.next().and_then(|t| t.strip_prefix('+')).and_then(parse_range).ok_or_else(|| format!("bad hunk header {:?}", s))?;
        i += 1;
        let (mut oc, mut nc) = (o.1, n.1);
        let mut old = Vec::new();
        let mut new = Vec::new();
        while oc > 0 || nc > 0 {
            if i >= lines.len() {
                return Err("reject hunk truncated".into());
            }
            let l = &lines[i];
            i += 1;
            let (tag, mut text) = (l[0], l[1..].to_vec());
            // "\ No newline" marker after this line?
            if i < lines.len() && lines[i].starts_with(b"\\") {
                text.pop();
                i += 1;
            }
            match tag {
                b' ' => {
                    if oc == 0 || nc == 0 {
                        return Err("context line beyond the announced counts".into());
                    }
                    old.push(text.clone());
                    new.push(text);
                    oc -= 1;
                    nc -= 1;
                }
                b'-' => {
                    if oc == 0 {
                        return Err("too many '-' lines".into());
                    }
                    old.push(text);
                    oc -= 1;
                }
                b'+' => {
                    if nc == 0 {
                        return Err("too many '+' lines".into());
                    }
                    new.push(text);
                    nc -= 1;
                }
                _ => return Err(format!("bad line in reject hunk: {:?}", String::from_utf8_lossy(l))),
            }
        }
        hunks.push(RejHunk { old_pos: zero_based(o.0, old.len()), new_pos: zero_based(n.0, new.len()), old, new });
    }
    Ok(RejFile { minus, plus, hunks, sections })
}

pub fn rej_hunk_of(h: &HHunk) -> RejHunk {
    RejHunk {
        old: h.old_lines().iter().map(|l| l.0.clone()).collect(),
        new: h.new_lines().iter().map(|l| l.0.clone()).collect(),
        old_pos: zero_based(h.old_start, h.old_count()),
        new_pos: zero_based(h.new_start, h.new_count()),
    }
}
