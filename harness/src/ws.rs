//! Running the real binary on scratch trees and observing the result.

use crate::bytes::B;
use serde::{Deserialize, Serialize};
use std::collections::BTreeMap;
use std::ffi::OsString;
use std::fs;
use std::os::unix::ffi::OsStrExt;
use std::os::unix::fs::{MetadataExt, PermissionsExt};
use std::os::unix::process::{CommandExt, ExitStatusExt};
use std::path::{Path, PathBuf};
use std::process::{Command, Stdio};
use std::sync::Mutex;
use std::time::{Duration, Instant};

#[derive(Clone, Debug, PartialEq, Eq, Serialize, Deserialize)]
pub enum Exit {
    Code(i32),
    Signal(i32),
    Timeout,
}

impl Exit {
    pub fn is_crash(&self) -> bool {
        !matches!(self, Exit::Code(0) | Exit::Code(1) | Exit::Timeout)
    }
}

#[derive(Clone, Debug)]
pub struct RunOut {
    pub exit: Exit,
    pub stdout: Vec<u8>,
    pub stderr: Vec<u8>,
    pub cpu_s: f64,
}

#[derive(Clone, Debug, Default)]
pub struct RunOpts {
    pub env: Vec<(String, String)>,
    /// RLIMIT_FSIZE in bytes with SIGXFSZ ignored
    pub fsize_limit: Option<u64>,
    pub timeout_s: Option<u64>,
    /// file to connect to stdin
    pub stdin_file: Option<PathBuf>,
    /// run as this (unprivileged) uid/gid
    pub uid: Option<u32>,
}

static WATCH: Mutex<Option<(i32, Instant)>> = Mutex::new(None);
static WATCH_STARTED: std::sync::Once = std::sync::Once::new();

fn start_watchdog() {
    WATCH_STARTED.call_once(|| {
        std::thread::spawn(|| loop {
            std::thread::sleep(Duration::from_millis(100));
            let g = WATCH.lock().unwrap();
            if let Some((pid, deadline)) = *g {
                if Instant::now() > deadline {
                    unsafe {
                        libc::kill(pid, libc::SIGKILL);
                    }
                }
            }
        });
    });
}

pub const DEFAULT_TIMEOUT_S: u64 = 20;

/// Run `bin args...` in `cwd` with a clean environment, umask 022.
pub fn run_bin(bin: &Path, cwd: &Path, args: &[String], opts: &RunOpts, io_dir: &Path) -> RunOut {
    start_watchdog();
    let out_path = io_dir.join(".rqv-stdout");
    let err_path = io_dir.join(".rqv-stderr");
    let out_f = fs::File::create(&out_path).expect("stdout file");
    let err_f = fs::File::create(&err_path).expect("stderr file");
    let mut cmd = Command::new(bin);
    cmd.args(args).current_dir(cwd).env_clear().env("PATH", "/usr/bin:/bin").env("LC_ALL", "C");
    for (k, v) in &opts.env {
        cmd.env(k, v);
    }
    match &opts.stdin_file {
        Some(p) => {
            cmd.stdin(fs::File::open(p).expect("stdin file"));
        }
        None => {
            cmd.stdin(Stdio::null());
        }
    }
    if opts.fsize_limit.is_some() {
        // RLIMIT_FSIZE would also cut the captured stdout/stderr files: use pipes there
        return run_piped(cmd, opts);
    }
    cmd.stdout(out_f).stderr(err_f);
    let fsize = opts.fsize_limit;
    let uid = opts.uid;
    unsafe {
        cmd.pre_exec(move || {
            libc::umask(0o022);
            if let Some(l) = fsize {
                libc::signal(libc::SIGXFSZ, libc::SIG_IGN);
                let r = libc::rlimit { rlim_cur: l, rlim_max: l };
                libc::setrlimit(libc::RLIMIT_FSIZE, &r);
            }
            if let Some(u) = uid {
                libc::setgroups(0, std::ptr::null());
                if libc::setgid(u) != 0 || libc::setuid(u) != 0 {
                    return Err(std::io::Error::last_os_error());
                }
            }
            Ok(())
        });
    }
    let child = cmd.spawn().expect("spawn rapidquilt");
    let pid = child.id() as i32;
    let timeout = opts.timeout_s.unwrap_or(DEFAULT_TIMEOUT_S);
    let deadline = Instant::now() + Duration::from_secs(timeout);
    *WATCH.lock().unwrap() = Some((pid, deadline));
    let mut status: i32 = 0;
    let mut ru: libc::rusage = unsafe { std::mem::zeroed() };
    let r = unsafe { libc::wait4(pid, &mut status, 0, &mut ru) };
    *WATCH.lock().unwrap() = None;
    std::mem::forget(child); // already reaped
    let timed_out = Instant::now() > deadline;
    let exit = if r != pid {
        Exit::Signal(-1)
    } else {
        let st = std::process::ExitStatus::from_raw(status);
        if let Some(c) = st.code() {
            Exit::Code(c)
        } else if timed_out && st.signal() == Some(libc::SIGKILL) {
            Exit::Timeout
        } else {
            Exit::Signal(st.signal().unwrap_or(-1))
        }
    };
    let cpu_s = ru.ru_utime.tv_sec as f64 + ru.ru_utime.tv_usec as f64 / 1e6 + ru.ru_stime.tv_sec as f64 + ru.ru_stime.tv_usec as f64 / 1e6;
    let stdout = fs::read(&out_path).unwrap_or_default();
    let stderr = fs::read(&err_path).unwrap_or_default();
    let _ = fs::remove_file(&out_path);
    let _ = fs::remove_file(&err_path);
    RunOut { exit, stdout, stderr, cpu_s }
}

fn run_piped(mut cmd: Command, opts: &RunOpts) -> RunOut {
    cmd.stdout(Stdio::piped()).stderr(Stdio::piped());
    let fsize = opts.fsize_limit;
    unsafe {
        cmd.pre_exec(move || {
            libc::umask(0o022);
            if let Some(l) = fsize {
                libc::signal(libc::SIGXFSZ, libc::SIG_IGN);
                let r = libc::rlimit { rlim_cur: l, rlim_max: l };
                libc::setrlimit(libc::RLIMIT_FSIZE, &r);
            }
            Ok(())
        });
    }
    let child = cmd.spawn().expect("spawn rapidquilt");
    let pid = child.id() as i32;
    let timeout = opts.timeout_s.unwrap_or(DEFAULT_TIMEOUT_S);
    let deadline = Instant::now() + Duration::from_secs(timeout);
    *WATCH.lock().unwrap() = Some((pid, deadline));
    let out = child.wait_with_output().expect("wait");
    *WATCH.lock().unwrap() = None;
    let timed_out = Instant::now() > deadline;
    let exit = if let Some(c) = out.status.code() {
        Exit::Code(c)
    } else if timed_out && out.status.signal() == Some(libc::SIGKILL) {
        Exit::Timeout
    } else {
        Exit::Signal(out.status.signal().unwrap_or(-1))
    };
    RunOut { exit, stdout: out.stdout, stderr: out.stderr, cpu_s: 0.0 }
}

/// One entry of a tree snapshot.
#[derive(Clone, Debug, PartialEq, Eq, Serialize, Deserialize)]
pub struct Ent {
    pub kind: char, // 'f' file, 'd' dir, 'l' symlink, 'o' other
    pub bytes: Vec<u8>,
    pub mode: u32,
    pub ino: u64,
    pub nlink: u64,
    pub mtime_ns: i128,
}

pub type Snapshot = BTreeMap<Vec<u8>, Ent>;

pub fn snapshot(root: &Path) -> Snapshot {
    let mut m = Snapshot::new();
    fn walk(root: &Path, dir: &Path, m: &mut Snapshot) {
        let Ok(rd) = fs::read_dir(dir) else { return };
        let mut ents: Vec<_> = rd.filter_map(|e| e.ok()).collect();
        ents.sort_by_key(|e| e.file_name());
        for e in ents {
            let p = e.path();
            let Ok(md) = fs::symlink_metadata(&p) else { continue };
            let rel = esc_bytes(p.strip_prefix(root).unwrap().as_os_str().as_bytes());
            let ft = md.file_type();
            let kind = if ft.is_dir() {
                'd'
            } else if ft.is_file() {
                'f'
            } else if ft.is_symlink() {
                'l'
            } else {
                'o'
            };
            let bytes = if kind == 'f' {
                fs::read(&p).unwrap_or_default()
            } else if kind == 'l' {
                fs::read_link(&p).map(|t| t.as_os_str().as_bytes().to_vec()).unwrap_or_default()
            } else {
                vec![]
            };
            m.insert(
                rel,
                Ent { kind, bytes, mode: md.permissions().mode() & 0o7777, ino: md.ino(), nlink: md.nlink(), mtime_ns: md.mtime() as i128 * 1_000_000_000 + md.mtime_nsec() as i128 },
            );
            if kind == 'd' {
                walk(root, &p, m);
            }
        }
    }
    walk(root, root, &mut m);
    m
}

/// Set mtime of everything under root (and root) to a fixed past instant.
pub fn pin_mtimes(root: &Path) {
    fn set(p: &Path) {
        let c = std::ffi::CString::new(p.as_os_str().as_bytes()).unwrap();
        let ts = [libc::timespec { tv_sec: 1_000_000_000, tv_nsec: 0 }, libc::timespec { tv_sec: 1_000_000_000, tv_nsec: 0 }];
        unsafe {
            libc::utimensat(libc::AT_FDCWD, c.as_ptr(), ts.as_ptr(), libc::AT_SYMLINK_NOFOLLOW);
        }
    }
    fn walk(dir: &Path) {
        if let Ok(rd) = fs::read_dir(dir) {
            for e in rd.filter_map(|e| e.ok()) {
                let p = e.path();
                if let Ok(md) = fs::symlink_metadata(&p) {
                    if md.is_dir() {
                        walk(&p);
                    }
                }
                set(&p);
            }
        }
        set(dir);
    }
    walk(root);
}

pub const PINNED_MTIME_NS: i128 = 1_000_000_000i128 * 1_000_000_000;

/// A file of a generated tree.
#[derive(Clone, Debug, PartialEq, Eq, Serialize, Deserialize)]
pub struct TFile {
    pub data: B,
    pub mode: u32,
}

/// Model of a directory tree: relative path -> file. Directories are implied by files
/// plus `dirs` (explicit, possibly empty directories).
#[derive(Clone, Debug, PartialEq, Eq, Serialize, Deserialize, Default)]
pub struct Tree {
    pub files: BTreeMap<String, TFile>,
}

impl Tree {
    pub fn write_to(&self, root: &Path) {
        for (p, f) in &self.files {
            let fp = root.join(os(p));
            if let Some(par) = fp.parent() {
                fs::create_dir_all(par).expect("mkdir");
            }
            fs::write(&fp, &f.data.0).expect("write file");
            fs::set_permissions(&fp, fs::Permissions::from_mode(f.mode)).expect("chmod");
        }
    }
}

pub fn write_file(root: &Path, rel: &str, data: &[u8]) {
    let fp = root.join(os(rel));
    if let Some(par) = fp.parent() {
        fs::create_dir_all(par).expect("mkdir");
    }
    fs::write(&fp, data).expect("write");
}

/// hard-link copy of `src` tree to `dst` (directories created, files linked)
pub fn link_tree(src: &Path, dst: &Path) {
    fs::create_dir_all(dst).expect("mkdir twin");
    if let Ok(rd) = fs::read_dir(src) {
        for e in rd.filter_map(|e| e.ok()) {
            let p = e.path();
            let d = dst.join(e.file_name());
            let md = fs::symlink_metadata(&p).expect("stat");
            if md.is_dir() {
                link_tree(&p, &d);
            } else {
                fs::hard_link(&p, &d).expect("hard link");
            }
        }
    }
}

pub fn copy_tree(src: &Path, dst: &Path) {
    fs::create_dir_all(dst).expect("mkdir copy");
    if let Ok(md) = fs::metadata(src) {
        let _ = fs::set_permissions(dst, md.permissions());
    }
    if let Ok(rd) = fs::read_dir(src) {
        for e in rd.filter_map(|e| e.ok()) {
            let p = e.path();
            let d = dst.join(e.file_name());
            let md = fs::symlink_metadata(&p).expect("stat");
            if md.is_dir() {
                copy_tree(&p, &d);
            } else if md.file_type().is_symlink() {
                let t = fs::read_link(&p).expect("readlink");
                let _ = std::os::unix::fs::symlink(t, &d);
            } else {
                fs::copy(&p, &d).expect("copy");
            }
        }
    }
}

/// Files only (no dirs), path -> (bytes, mode); optionally filtered
pub fn files_of(s: &Snapshot) -> BTreeMap<String, (Vec<u8>, u32)> {
    s.iter().filter(|(_, e)| e.kind == 'f').map(|(p, e)| (String::from_utf8_lossy(p).into_owned(), (e.bytes.clone(), e.mode))).collect()
}

pub fn osstr(s: &str) -> OsString {
    OsString::from(s)
}

// File names that are not UTF-8. Model names stay `String`s: a character U+F780..U+F7FF (private use)
// stands for the single raw byte 0x80..0xFF ("surrogate escape"). The translation happens only where names
// leave or enter the model: `os`/`unesc` when a model name goes to disk or into patch text, `esc_bytes`
// when a name comes back from disk (snapshot keys) or from the tool's parser.
pub const RAW_BASE: u32 = 0xF700;

/// Model name -> the bytes of the real name.
pub fn unesc(p: &str) -> Vec<u8> {
    let mut v = Vec::with_capacity(p.len());
    let mut buf = [0u8; 4];
    for c in p.chars() {
        let u = c as u32;
        if (RAW_BASE + 0x80..=RAW_BASE + 0xFF).contains(&u) {
            v.push((u - RAW_BASE) as u8);
        } else {
            v.extend_from_slice(c.encode_utf8(&mut buf).as_bytes());
        }
    }
    v
}

/// Model name -> OS name.
pub fn os(p: &str) -> OsString {
    use std::os::unix::ffi::OsStringExt;
    OsString::from_vec(unesc(p))
}

/// Real name bytes -> the UTF-8 bytes of the model name (every byte that is not part of valid UTF-8 escaped).
pub fn esc_bytes(mut b: &[u8]) -> Vec<u8> {
    let mut out = Vec::with_capacity(b.len());
    let mut buf = [0u8; 4];
    loop {
        match std::str::from_utf8(b) {
            Ok(s) => {
                out.extend_from_slice(s.as_bytes());
                return out;
            }
            Err(e) => {
                let (good, rest) = b.split_at(e.valid_up_to());
                out.extend_from_slice(good);
                let c = char::from_u32(RAW_BASE + rest[0] as u32).unwrap();
                out.extend_from_slice(c.encode_utf8(&mut buf).as_bytes());
                b = &rest[1..];
            }
        }
    }
}

/// Real name bytes -> model name.
pub fn name_str(b: &[u8]) -> String {
    String::from_utf8(esc_bytes(b)).unwrap()
}

/// What the tool prints for a model name (`Path::display`: U+FFFD for every byte that is not UTF-8).
pub fn shown(p: &str) -> String {
    p.chars().map(|c| if (RAW_BASE + 0x80..=RAW_BASE + 0xFF).contains(&(c as u32)) { '\u{fffd}' } else { c }).collect()
}

/// Set by the properties whose generators may use names that are not UTF-8.
pub static RAW_NAMES: std::sync::atomic::AtomicBool = std::sync::atomic::AtomicBool::new(false);

pub fn lossy(b: &[u8]) -> String {
    let s = String::from_utf8_lossy(b);
    if s.len() > 600 {
        format!("{}...[{} bytes]", &s[..s.char_indices().nth(600).map(|x| x.0).unwrap_or(s.len())], s.len())
    } else {
        s.into_owned()
    }
}

pub fn rm_rf(p: &Path) {
    let _ = fs::remove_dir_all(p);
}

pub fn path_of(root: &Path, rel: &str) -> PathBuf {
    root.join(os(rel))
}

/// A quilt workspace to materialise: tree + patches/ + series (+ prior .pc/applied-patches)
#[derive(Clone, Debug, PartialEq, Eq, Serialize, Deserialize, Default)]
pub struct WsSpec {
    pub tree: Tree,
    /// (file name under patches/, content)
    pub patches: Vec<(String, B)>,
    /// raw series file content
    pub series: B,
    /// raw .pc/applied-patches content, if the file exists
    #[serde(default)]
    pub applied: Option<B>,
    /// extra empty directories
    #[serde(default)]
    pub dirs: Vec<String>,
    /// extra symbolic links (path, target)
    #[serde(default)]
    pub symlinks: Vec<(String, String)>,
}

impl WsSpec {
    pub fn materialise(&self, root: &Path) {
        fs::create_dir_all(root).expect("mkdir ws");
        self.tree.write_to(root);
        for d in &self.dirs {
            fs::create_dir_all(root.join(os(d))).expect("mkdir extra");
        }
        for (p, t) in &self.symlinks {
            let full = root.join(os(p));
            if let Some(par) = full.parent() {
                fs::create_dir_all(par).expect("mkdir for symlink");
            }
            let _ = std::os::unix::fs::symlink(t, &full);
        }
        fs::create_dir_all(root.join("patches")).expect("mkdir patches");
        for (n, t) in &self.patches {
            write_file(root, &format!("patches/{}", n), &t.0);
        }
        fs::write(root.join("series"), &self.series.0).expect("series");
        if let Some(a) = &self.applied {
            fs::create_dir_all(root.join(".pc")).expect("mkdir .pc");
            fs::write(root.join(".pc/applied-patches"), &a.0).expect("applied-patches");
        }
    }
}

/// The user-visible part of a workspace snapshot: everything except patches/, series, .pc/
pub fn user_files(s: &Snapshot) -> BTreeMap<String, (Vec<u8>, u32)> {
    files_of(s).into_iter().filter(|(p, _)| !(p == "series" || p.starts_with("patches/") || p.starts_with(".pc/"))).collect()
}

pub fn pc_files(s: &Snapshot) -> BTreeMap<String, (Vec<u8>, u32)> {
    files_of(s).into_iter().filter(|(p, _)| p.starts_with(".pc/")).collect()
}

pub fn applied_patches(root: &Path) -> Vec<String> {
    fs::read_to_string(root.join(".pc/applied-patches")).map(|s| s.lines().map(|l| l.to_string()).collect()).unwrap_or_default()
}

pub fn tree_as_map(t: &Tree) -> BTreeMap<String, (Vec<u8>, u32)> {
    t.files.iter().map(|(p, f)| (p.clone(), (f.data.0.clone(), f.mode))).collect()
}

/// Describe the first difference between two file maps (None if equal).
pub fn diff_maps(exp: &BTreeMap<String, (Vec<u8>, u32)>, got: &BTreeMap<String, (Vec<u8>, u32)>, compare_modes: bool) -> Option<String> {
    for (p, (d, m)) in exp {
        match got.get(p) {
            None => return Some(format!("expected file {:?} is missing", p)),
            Some((gd, gm)) => {
                if gd != d {
                    return Some(format!("file {:?}: expected {:?} got {:?}", p, crate::bytes::esc(&d[..d.len().min(300)]), crate::bytes::esc(&gd[..gd.len().min(300)])));
                }
                if compare_modes && gm != m {
                    return Some(format!("file {:?}: expected mode {:o} got {:o}", p, m, gm));
                }
            }
        }
    }
    for p in got.keys() {
        if !exp.contains_key(p) {
            return Some(format!("unexpected file {:?}", p));
        }
    }
    None
}

pub fn base_args(threads: usize) -> Vec<String> {
    vec!["push".into(), "--color".into(), "never".into(), "--threads".into(), threads.to_string()]
}

/// chown everything under (and including) `root` to uid:gid
pub fn chown_tree(root: &Path, uid: u32) {
    fn ch(p: &Path, uid: u32) {
        let c = std::ffi::CString::new(p.as_os_str().as_bytes()).unwrap();
        unsafe {
            libc::lchown(c.as_ptr(), uid, uid);
        }
    }
    fn walk(d: &Path, uid: u32) {
        if let Ok(rd) = fs::read_dir(d) {
            for e in rd.filter_map(|e| e.ok()) {
                let p = e.path();
                if fs::symlink_metadata(&p).map(|m| m.is_dir()).unwrap_or(false) {
                    walk(&p, uid);
                }
                ch(&p, uid);
            }
        }
        ch(d, uid);
    }
    walk(root, uid);
}

/// The same relative path without empty and "." components ("a//b", "a/./b", "./a/b" -> "a/b").
pub fn norm_rel(p: &str) -> String {
    p.split('/').filter(|c| !c.is_empty() && *c != ".").collect::<Vec<_>>().join("/")
}
