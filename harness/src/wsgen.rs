//! Quilt workspaces by construction, with an independent tree model T_0 .. T_n.

use crate::bytes::{join_lines, split_lines, B};
use crate::choose::{Alphabet, Chooser};
use crate::diff::*;
use crate::engine::CaseCtx;
use crate::gen::*;
use crate::ptext::*;
use crate::ws::{TFile, Tree, WsSpec};
use serde::{Deserialize, Serialize};

pub const SENTINEL: &[u8] = b"@@@SENTINEL-LINE-NOT-IN-ANY-FILE@@@\n";

#[derive(Clone, Debug, Serialize, Deserialize, PartialEq)]
pub struct FileOp {
    /// modify | create | delete | truncate | rename | mode
    pub kind: String,
    pub old_path: String,
    pub new_path: String,
    /// the path the tool is expected to load and patch
    pub target: String,
    /// hunks as written in the patch text (patch orientation)
    pub hunks: Vec<HHunk>,
    /// indices of hunks that cannot apply (only in the failing patch)
    #[serde(default)]
    pub failing_hunks: Vec<usize>,
    /// reason for the failure, if any
    #[serde(default)]
    pub fail_reason: Option<String>,
}

#[derive(Clone, Debug, Serialize, Deserialize, PartialEq)]
pub struct PatchMeta {
    pub name: String,
    pub strip: usize,
    pub reverse: bool,
    pub git: bool,
    pub ops: Vec<FileOp>,
}

#[derive(Clone, Debug, Serialize, Deserialize)]
pub struct WsCase {
    pub spec: WsSpec,
    /// states[i] = model tree after the first i patches
    pub states: Vec<Tree>,
    pub metas: Vec<PatchMeta>,
    /// index of the first patch that cannot apply completely
    pub fail_at: Option<usize>,
    pub feat: Vec<String>,
}

pub struct WsGenOpts {
    pub max_patches: usize,
    pub max_files: usize,
    /// probability (out of 8) that a failing patch is injected
    pub fail_chance: u32,
    pub allow_reverse: bool,
    pub allow_rename: bool,
    pub allow_mode: bool,
    pub allow_strip: bool,
    pub nasty_names: bool,
    /// several entries for one file within a patch
    pub allow_dup_entries: bool,
    /// shapes whose outcome depends on save-phase timing when threads > 1
    pub allow_dir_races: bool,
    pub max_lines: usize,
    /// only let file patches fail whose reject directory exists both in the start tree and
    /// right before the failing patch (otherwise whether the reject is written depends on
    /// how the push is split / on save timing - the "if its directory exists" clause)
    pub strict_reject_dirs: bool,
    /// chance (out of 8) that a modify entry gets differing ---/+++ names
    pub alt_name_chance: u32,
    /// misordered-hunks failures (only sound when the push runs without --fuzz)
    pub allow_misordered: bool,
    /// inject a second failing patch after the first one (it must never be reached)
    pub second_failure: bool,
    /// a file patch whose target is a directory: loading it is an I/O error, the push must stop
    /// with an error and write nothing at all
    pub allow_hard_error: bool,
    /// chance (out of 8) that a start file ends in a very long line (longer than any I/O buffer)
    pub long_last_line_chance: u32,
    /// DOS line ends in all files and patch files of the workspace
    pub allow_crlf: bool,
    /// a path that was a file becomes a directory later in the series (open known finding of C09)
    pub allow_path_kind_change: bool,
}

impl Default for WsGenOpts {
    fn default() -> Self {
        WsGenOpts { max_patches: 6, max_files: 8, fail_chance: 3, allow_reverse: true, allow_rename: true, allow_mode: true, allow_strip: true, nasty_names: false, allow_dup_entries: true, allow_dir_races: true, max_lines: 30, strict_reject_dirs: false, alt_name_chance: 0, allow_misordered: false, second_failure: false, allow_hard_error: false, long_last_line_chance: 0, allow_crlf: true, allow_path_kind_change: false }
    }
}

fn path_conflicts(tree: &Tree, cand: &str, reserved: &[String]) -> bool {
    if tree.files.contains_key(cand) || reserved.iter().any(|r| r == cand) {
        return true;
    }
    if cand == "series" || cand.starts_with("patches/") || cand.starts_with(".pc/") || cand.ends_with(".rej") || cand.ends_with(".orig") {
        return true;
    }
    for p in tree.files.keys().chain(reserved.iter()) {
        if p.starts_with(&format!("{}/", cand)) || cand.starts_with(&format!("{}/", p)) {
            return true;
        }
    }
    false
}

fn new_path(ch: &mut Chooser, tree: &Tree, reserved: &[String], nasty: bool) -> Option<String> {
    for _ in 0..6 {
        let c = gen_path(ch, nasty);
        if !path_conflicts(tree, &c, reserved) {
            return Some(c);
        }
    }
    // fall back to a numbered name
    for i in 0..50 {
        let c = format!("gen{}.txt", i);
        if !path_conflicts(tree, &c, reserved) {
            return Some(c);
        }
    }
    None
}

fn dir_of(p: &str) -> &str {
    match p.rfind('/') {
        Some(i) => &p[..i],
        None => "",
    }
}

/// would deleting `path` from `tree` leave its directory empty (and could something else of the same run
/// put a file back into that directory)? conservative: directory has no other file.
fn dir_emptied_by_removal(tree: &Tree, path: &str) -> bool {
    let d = dir_of(path);
    if d.is_empty() {
        return false;
    }
    !tree.files.keys().any(|p| p != path && dir_of(p).starts_with(d))
}

fn dir_exists(tree: &Tree, d: &str) -> bool {
    d.is_empty() || tree.files.keys().any(|p| p.starts_with(&format!("{}/", d)))
}

fn break_hunk(h: &mut HHunk, match_tag: u8) -> bool {
    if let Some(l) = h.lines.iter_mut().find(|l| l.tag == match_tag) {
        l.text = B::new(SENTINEL);
        true
    } else {
        false
    }
}

/// The hunk stops matching only because its last matched line differs in the final newline (present in the
/// patch and missing in the file, or the reverse).
fn break_hunk_final_newline(h: &mut HHunk, match_tag: u8) -> bool {
    if let Some(l) = h.lines.iter_mut().rev().find(|l| l.tag == match_tag) {
        if l.text.0.len() < 2 {
            return false;
        }
        if l.text.0.last() == Some(&b'\n') {
            l.text.0.pop();
        } else {
            l.text.0.push(b'\n');
        }
        true
    } else {
        false
    }
}

/// Set by the properties whose oracle compares two runs that differ only in --dry-run or in presentation options
/// (C10, C14). Such patches need not apply at fuzz 0 (a hunk whose context reaches into the previous hunk's change is
/// "misordered"), so checks that rely on the model's outcome, or vary --fuzz between runs (C09), do not use them.
pub static TIGHT_SPLIT: std::sync::atomic::AtomicBool = std::sync::atomic::AtomicBool::new(false);

pub fn gen_ws(ch: &mut Chooser, cx: &mut CaseCtx, o: &WsGenOpts) -> WsCase {
    let alpha = match ch.weighted(&[2, 4, 1]) {
        0 => Alphabet::Small(3),
        1 => Alphabet::Words,
        _ => Alphabet::Nasty,
    };
    let mut feat: Vec<String> = vec![];
    // T0
    let mut t0 = Tree::default();
    let nfiles = ch.range(1, o.max_files);
    for _ in 0..nfiles {
        if let Some(p) = new_path(ch, &t0, &[], o.nasty_names) {
            let mut lines = gen_file_lines(ch, alpha, o.max_lines, true);
            if o.long_last_line_chance > 0 && ch.chance(o.long_last_line_chance, 8) {
                if let Some(l) = lines.last_mut() {
                    if l.0.last() != Some(&b'\n') {
                        l.0.push(b'\n');
                    }
                }
                let n = ch.range(9000, 30000);
                let mut long: Vec<u8> = (0..n).map(|i| b'a' + (i % 23) as u8).collect();
                if ch.chance(1, 2) {
                    long.push(b'\n');
                }
                lines.push(B(long));
                feat.push("very-long-last-line".into());
            }
            t0.files.insert(p, TFile { data: B(join_lines(&lines)), mode: *ch.pick(MODES) });
        }
    }
    if ch.chance(1, 4) {
        if let Some(p) = new_path(ch, &t0, &[], false) {
            t0.files.insert(p, TFile { data: B(vec![]), mode: *ch.pick(MODES) });
        }
    }
    let npatches = ch.range(1, o.max_patches);
    let inject = ch.chance(o.fail_chance, 8);
    let fail_idx = if inject { Some(ch.below(npatches)) } else { None };
    // a second failing patch later in the series: the single-threaded run never reaches it, run-ahead
    // workers do
    let fail_idx2 = match fail_idx {
        Some(j) if o.second_failure && j + 1 < npatches && ch.chance(1, 2) => Some(ch.range(j + 1, npatches - 1)),
        _ => None,
    };
    let mut states = vec![t0.clone()];
    let mut cur = t0.clone();
    let mut metas: Vec<PatchMeta> = Vec::new();
    let mut patches: Vec<(String, B)> = Vec::new();
    let mut series = Vec::new();
    let mut fail_at: Option<usize> = None;
    // names ever used in the run (to keep "create" paths fresh, avoiding delete+recreate unless wanted)
    let mut ever: Vec<String> = t0.files.keys().cloned().collect();
    let k9_open = !cx.feature("KF-K9-recreate-after-delete-keeps-mode");

    for pi in 0..npatches {
        let git = ch.chance(2, 5);
        let reverse = o.allow_reverse && ch.chance(1, 6);
        let mut d = gen_dialect(ch, git);
        if git {
            d.header = HeaderKind::Git;
            d.strip = 1;
            d.orig_style = false;
            d.spelling = 0;
        } else if d.header == HeaderKind::Git {
            d.header = HeaderKind::Plain;
        }
        if !o.allow_strip {
            d.strip = 1;
        }
        d.garbage = ch.chance(1, 4);
        d.bare_empty_ctx = false;
        // a patch whose name starts with '#': only an entry with leading white space can name it in the series
        // (a '#' in the first column starts a comment); .pc/applied-patches holds the bare name
        let hash_name = ch.chance(1, 20);
        let name = format!("{}{:02}-{}.patch", if hash_name { "#" } else { "" }, pi + 1, ch.pick(&["fix", "feature", "cleanup", "wip"]));
        if hash_name {
            feat.push("patch-name-starts-with-hash".into());
        }
        let nops = ch.range(1, 4);
        let mut ops: Vec<FileOp> = Vec::new();
        let mut specs: Vec<FilePatchSpec> = Vec::new();
        let mut deferred: Option<(usize, usize, String, FileOp, FilePatchSpec)> = None;
        let mut next = cur.clone();
        let failing_here = fail_idx == Some(pi) || fail_idx2 == Some(pi);
        // which ops of a failing patch fail: decided per op below (at least one forced)
        let mut any_failed = false;
        // the refused rename stays the only failure of the patch (then no reject file is written at all)
        let mut sole_failure = false;
        let mut touched: Vec<String> = Vec::new();
        for oi in 0..nops {
            let want_fail = failing_here && !sole_failure && (ch.chance(1, 2) || (oi + 1 == nops && !any_failed));
            let states_ref = &states;
            let strict = o.strict_reject_dirs;
            // the directory must exist in every state a push could start from
            let rej_dir_ok = |p: &str| -> bool { !strict || states_ref.iter().all(|st| dir_exists(st, dir_of(p))) };
            let existing: Vec<String> = next.files.keys().filter(|p| !touched.contains(p)).cloned().collect();
            let nonempty: Vec<String> = existing.iter().filter(|p| !next.files[*p].data.is_empty()).cloned().collect();
            let mut kind = ch.weighted(&[10, 3, 2, 1, if o.allow_rename && git && !reverse { if failing_here { 5 } else { 2 } } else { 0 }, if o.allow_mode && git { 2 } else { 0 }, if o.allow_dir_races && !failing_here { 1 } else { 0 }]);
            if existing.is_empty() {
                kind = 1;
            }
            if (kind == 2 || kind == 3 || kind == 4) && nonempty.is_empty() {
                kind = if existing.is_empty() { 1 } else { 0 };
            }
            let c = *ch.pick(&[3usize, 3, 3, 2, 1, 1, 0]);
            // hand-merged patches: separate hunks for neighbouring changes, whose context shows the old version of a
            // line that the neighbouring hunk changes (only in the checks that compare runs with each other)
            let merge = if TIGHT_SPLIT.load(std::sync::atomic::Ordering::Relaxed) && ch.chance(1, 5) {
                feat.push("hunks-with-context-over-a-neighbouring-change".into());
                Merge::SplitTight
            } else if ch.chance(1, 4) {
                Merge::SplitOverlap
            } else {
                Merge::Gnu
            };
            match kind {
                1 => {
                    // create
                    // sometimes re-create a file that an earlier patch deleted (or renamed away)
                    let gone: Vec<String> = ever.iter().filter(|p| !next.files.contains_key(*p) && !touched.contains(*p) && !path_conflicts(&next, p, &[])).cloned().collect();
                    let recreate = !gone.is_empty() && ch.chance(1, 4);
                    let below_former_file = o.allow_path_kind_change && !gone.is_empty() && !failing_here && ch.chance(1, 3);
                    if below_former_file && !cx.feature("KF-C09-path-changes-between-file-and-directory") {
                        cx.exclude("KF-C09-path-changes-between-file-and-directory");
                    }
                    let path = if below_former_file && cx.feature("KF-C09-path-changes-between-file-and-directory") {
                        feat.push("file-becomes-directory".into());
                        format!("{}/inner.txt", gone[ch.below(gone.len())])
                    } else if recreate && !k9_open {
                        feat.push("recreate-after-delete".into());
                        gone[ch.below(gone.len())].clone()
                    } else {
                        if recreate {
                            cx.exclude("KF-K9-recreate-after-delete-keeps-mode");
                        }
                        let Some(p) = new_path(ch, &next, &ever, o.nasty_names) else { continue };
                        p
                    };
                    if !o.allow_dir_races && !dir_exists(&states[0], dir_of(&path)) && !dir_exists(&next, dir_of(&path)) {
                        // a new directory: fine in itself; rejects inside it are the K6b shape, handled by the
                        // lenient zone of C13. Creating files in new dirs is allowed.
                    }
                    let mut lines = gen_file_lines(ch, alpha, 10, true);
                    if lines.is_empty() {
                        lines.push(B::new("new\n"));
                    }
                    let mode = if git { *ch.pick(&[0o644u32, 0o755, 0o644]) } else { 0o644 };
                    let both_names = !git && ch.chance(1, 4);
                    let mut chg = FileChange { old_path: path.clone(), new_path: path.clone(), old: None, new: Some(lines.clone()), old_mode: None, new_mode: Some(mode), rename: false };
                    let cops = vec![Op::Ins; lines.len()];
                    let mut fp;
                    let mut fail_reason = None;
                    let mut failing = vec![];
                    let victims: Vec<String> = nonempty.iter().filter(|p| rej_dir_ok(p)).cloned().collect();
                    if want_fail && !victims.is_empty() {
                        // create over an existing non-empty file
                        let victim = victims[ch.below(victims.len())].clone();
                        chg.old_path = victim.clone();
                        chg.new_path = victim.clone();
                        fail_reason = Some("create-over-existing".to_string());
                        failing = vec![0];
                        any_failed = true;
                    }
                    if reverse {
                        let r = FileChange { old_path: chg.new_path.clone(), new_path: chg.old_path.clone(), old: chg.new.clone(), new: None, old_mode: chg.new_mode, new_mode: None, rename: false };
                        let rops = vec![Op::Del; lines.len()];
                        fp = build_file_patch(ch, &d, &r, &rops, 3, Merge::Gnu);
                    } else {
                        fp = build_file_patch(ch, &d, &chg, &cops, 3, Merge::Gnu);
                        if both_names {
                            // name the file on both sides (plain diff -N style)
                            let (pa, _) = prefixes(&d);
                            let nm = render_name(&d, &pa, &chg.new_path, false);
                            let ts = fp.minus.as_ref().and_then(|m| m.0.iter().position(|&c| c == b'\t').map(|i| m.0[i..].to_vec())).unwrap_or_default();
                            let mut v = nm;
                            v.extend_from_slice(&ts);
                            fp.minus = Some(B(v));
                            feat.push("create-both-names".into());
                        }
                    }
                    let target = chg.new_path.clone();
                    if fail_reason.is_none() {
                        next.files.insert(path.clone(), TFile { data: B(join_lines(&lines)), mode });
                        ever.push(path.clone());
                        if !dir_exists(&states[0], dir_of(&path)) {
                            feat.push("create-in-new-dir".into());
                        }
                    }
                    touched.push(target.clone());
                    ops.push(FileOp { kind: "create".into(), old_path: chg.old_path.clone(), new_path: chg.new_path.clone(), target, hunks: fp.hunks.clone(), failing_hunks: failing, fail_reason });
                    specs.push(fp);
                }
                6 => {
                    // delete everything below one top-level directory: nested directories and their parents
                    // become empty in the same push
                    let tops: Vec<String> = {
                        let mut v: Vec<String> = next.files.keys().filter(|p| p.contains('/')).map(|p| p[..p.find('/').unwrap()].to_string()).collect();
                        v.sort();
                        v.dedup();
                        v
                    };
                    let tops: Vec<String> = tops
                        .into_iter()
                        .filter(|t| {
                            let fs: Vec<&String> = next.files.keys().filter(|p| p.starts_with(&format!("{}/", t))).collect();
                            fs.len() >= 2 && fs.len() <= 5 && fs.iter().all(|p| !next.files[*p].data.is_empty() && !touched.contains(*p))
                        })
                        .collect();
                    if tops.is_empty() {
                        continue;
                    }
                    let t = tops[ch.below(tops.len())].clone();
                    let victims: Vec<String> = next.files.keys().filter(|p| p.starts_with(&format!("{}/", t))).cloned().collect();
                    for path in victims {
                        let f = next.files[&path].clone();
                        let lines = split_lines(&f.data);
                        let fp = if reverse {
                            let r = FileChange { old_path: path.clone(), new_path: path.clone(), old: None, new: Some(lines.clone()), old_mode: None, new_mode: Some(f.mode), rename: false };
                            build_file_patch(ch, &d, &r, &vec![Op::Ins; lines.len()], 3, Merge::Gnu)
                        } else {
                            let chg = FileChange { old_path: path.clone(), new_path: path.clone(), old: Some(lines.clone()), new: None, old_mode: Some(f.mode), new_mode: None, rename: false };
                            build_file_patch(ch, &d, &chg, &vec![Op::Del; lines.len()], 3, Merge::Gnu)
                        };
                        next.files.remove(&path);
                        touched.push(path.clone());
                        ops.push(FileOp { kind: "delete".into(), old_path: path.clone(), new_path: path.clone(), target: path, hunks: fp.hunks.clone(), failing_hunks: vec![], fail_reason: None });
                        specs.push(fp);
                    }
                    feat.push("delete".into());
                    feat.push("whole-directory-tree-deleted".into());
                }
                2 | 3 => {
                    // delete (2) / truncate (3)
                    let path = nonempty[ch.below(nonempty.len())].clone();
                    if kind == 2 && !o.allow_dir_races && dir_emptied_by_removal(&next, &path) {
                        cx.exclude("dir-emptied-race-shape");
                        // fall back to a truncate, which leaves the directory alone
                        kind = 3;
                    }
                    let f = next.files[&path].clone();
                    let lines = split_lines(&f.data);
                    let to_null = kind == 2;
                    let chg = FileChange { old_path: path.clone(), new_path: path.clone(), old: Some(lines.clone()), new: if to_null { None } else { Some(vec![]) }, old_mode: Some(f.mode), new_mode: None, rename: false };
                    let dops = vec![Op::Del; lines.len()];
                    let mut fp = if reverse {
                        let r = FileChange { old_path: path.clone(), new_path: path.clone(), old: chg.new.clone(), new: chg.old.clone(), old_mode: None, new_mode: Some(f.mode), rename: false };
                        let rops = vec![Op::Ins; lines.len()];
                        build_file_patch(ch, &d, &r, &rops, 3, Merge::Gnu)
                    } else {
                        build_file_patch(ch, &d, &chg, &dops, 3, Merge::Gnu)
                    };
                    let mut failing = vec![];
                    let mut fail_reason = None;
                    if want_fail && rej_dir_ok(&path) {
                        let tag = if reverse { b'+' } else { b'-' };
                        let only_newline = ch.chance(1, 3);
                        if !fp.hunks.is_empty() && only_newline && fp.hunks.len() == 1 && break_hunk_final_newline(&mut fp.hunks[0], tag) {
                            failing = vec![0];
                            fail_reason = Some("delete-mismatch".into());
                            feat.push("delete-mismatch-only-in-final-newline".into());
                            any_failed = true;
                        } else if !fp.hunks.is_empty() && break_hunk(&mut fp.hunks[0], tag) {
                            failing = vec![0];
                            fail_reason = Some("delete-mismatch".into());
                            any_failed = true;
                        }
                    }
                    if fail_reason.is_none() {
                        if to_null {
                            next.files.remove(&path);
                            feat.push("delete".into());
                        } else {
                            next.files.get_mut(&path).unwrap().data = B(vec![]);
                            feat.push("truncate".into());
                        }
                    }
                    touched.push(path.clone());
                    ops.push(FileOp { kind: if to_null { "delete".into() } else { "truncate".into() }, old_path: path.clone(), new_path: path.clone(), target: path, hunks: fp.hunks.clone(), failing_hunks: failing, fail_reason });
                    specs.push(fp);
                }
                4 if failing_here && nonempty.len() >= 2 && ch.chance(1, 3) => {
                    // a rename that cannot be carried out, inside a failing patch (whatever it does must be undone):
                    //  V1 the new name is an existing non-empty file: refused, the patch fails, no reject for it
                    //  V2 the old name does not exist and the new name does ("already has the name"): the hunks
                    //     go to the new name in place; used only when the patch fails anyway
                    //  V3 the new name is an existing EMPTY file: the rename is carried out (and must be undone: the
                    //     empty file is there again afterwards, with its mode)
                    //  V4 neither name exists: there is nothing to rename, the patch fails, nothing is left behind
                    let empties: Vec<String> = existing.iter().filter(|p| next.files[*p].data.is_empty()).cloned().collect();
                    let variant = ch.below(4);
                    if variant == 2 && !empties.is_empty() {
                        let b = empties[ch.below(empties.len())].clone();
                        let a = nonempty[ch.below(nonempty.len())].clone();
                        let fa = next.files[&a].clone();
                        let alines = split_lines(&fa.data);
                        let (nl, eops) = if ch.chance(1, 2) { gen_edit(ch, &alines, alpha, true) } else { (alines.clone(), vec![Op::Keep; alines.len()]) };
                        let chg = FileChange { old_path: a.clone(), new_path: b.clone(), old: Some(alines.clone()), new: Some(nl), old_mode: Some(fa.mode), new_mode: Some(fa.mode), rename: true };
                        let mut fp = build_file_patch(ch, &d, &chg, &eops, c.max(1), merge);
                        let mut failing = vec![];
                        let mut fail_reason = None;
                        if want_fail && !fp.hunks.is_empty() && rej_dir_ok(&a) {
                            let hi = ch.below(fp.hunks.len());
                            if break_hunk(&mut fp.hunks[hi], b'-') {
                                failing = vec![hi];
                                fail_reason = Some("no-match".into());
                                any_failed = true;
                            }
                        }
                        if fail_reason.is_none() && !any_failed {
                            continue;
                        }
                        feat.push("rename-onto-existing-empty-file-undone".into());
                        touched.push(a.clone());
                        touched.push(b.clone());
                        ops.push(FileOp { kind: "rename".into(), old_path: a.clone(), new_path: b, target: a, hunks: fp.hunks.clone(), failing_hunks: failing, fail_reason });
                        specs.push(fp);
                        continue;
                    }
                    if variant == 3 && want_fail {
                        let Some(a) = new_path(ch, &next, &ever, false) else { continue };
                        ever.push(a.clone());
                        let Some(b) = new_path(ch, &next, &ever, false) else { continue };
                        ever.push(b.clone());
                        let lines = vec![B::new("one\n"), B::new("two\n"), B::new("three\n")];
                        let (nl, eops) = if ch.chance(1, 2) { gen_edit(ch, &lines, alpha, true) } else { (lines.clone(), vec![Op::Keep; lines.len()]) };
                        let chg = FileChange { old_path: a.clone(), new_path: b.clone(), old: Some(lines.clone()), new: Some(nl), old_mode: Some(0o644), new_mode: Some(0o644), rename: true };
                        let fp = build_file_patch(ch, &d, &chg, &eops, c.max(1), merge);
                        sole_failure = !any_failed && ch.chance(1, 2);
                        any_failed = true;
                        feat.push("rename-of-a-file-that-does-not-exist".into());
                        touched.push(a.clone());
                        touched.push(b.clone());
                        ops.push(FileOp { kind: "rename".into(), old_path: a.clone(), new_path: b, target: a, hunks: fp.hunks.clone(), failing_hunks: vec![], fail_reason: Some("rename-source-missing".into()) });
                        specs.push(fp);
                        continue;
                    }
                    let bi = ch.below(nonempty.len());
                    let b = nonempty[bi].clone();
                    let fb = next.files[&b].clone();
                    let blines = split_lines(&fb.data);
                    if want_fail && ch.chance(1, 2) {
                        let others: Vec<String> = nonempty.iter().filter(|p| **p != b).cloned().collect();
                        let a = others[ch.below(others.len())].clone();
                        let fa = next.files[&a].clone();
                        let alines = split_lines(&fa.data);
                        let (nl, eops) = if ch.chance(1, 2) { gen_edit(ch, &alines, alpha, true) } else { (alines.clone(), vec![Op::Keep; alines.len()]) };
                        let chg = FileChange { old_path: a.clone(), new_path: b.clone(), old: Some(alines.clone()), new: Some(nl), old_mode: Some(fa.mode), new_mode: Some(fa.mode), rename: true };
                        let fp = build_file_patch(ch, &d, &chg, &eops, c.max(1), merge);
                        sole_failure = !any_failed && ch.chance(1, 2);
                        any_failed = true;
                        feat.push("rename-onto-existing-file".into());
                        if sole_failure {
                            feat.push("refused-rename-is-the-only-failure".into());
                        }
                        touched.push(a.clone());
                        touched.push(b.clone());
                        ops.push(FileOp { kind: "rename".into(), old_path: a.clone(), new_path: b, target: a, hunks: fp.hunks.clone(), failing_hunks: vec![], fail_reason: Some("rename-onto-existing".into()) });
                        specs.push(fp);
                    } else {
                        let Some(a) = new_path(ch, &next, &ever, false) else { continue };
                        let (nl, eops) = gen_edit(ch, &blines, alpha, true);
                        let chg = FileChange { old_path: a.clone(), new_path: b.clone(), old: Some(blines.clone()), new: Some(nl.clone()), old_mode: Some(fb.mode), new_mode: Some(fb.mode), rename: true };
                        let mut fp = build_file_patch(ch, &d, &chg, &eops, c.max(1), merge);
                        let mut failing = vec![];
                        let mut fail_reason = None;
                        if want_fail && !fp.hunks.is_empty() && rej_dir_ok(&b) {
                            let hi = ch.below(fp.hunks.len());
                            if break_hunk(&mut fp.hunks[hi], b'-') {
                                failing = vec![hi];
                                fail_reason = Some("no-match".into());
                                any_failed = true;
                            }
                        }
                        if fail_reason.is_none() && !any_failed {
                            // the patch might apply as a whole: do not rely on what the tool makes of this shape
                            continue;
                        }
                        ever.push(a.clone());
                        feat.push("rename-already-has-the-name".into());
                        touched.push(a.clone());
                        touched.push(b.clone());
                        ops.push(FileOp { kind: "rename".into(), old_path: a, new_path: b.clone(), target: b, hunks: fp.hunks.clone(), failing_hunks: failing, fail_reason });
                        specs.push(fp);
                    }
                }
                4 if o.allow_hard_error && fail_at.is_some() && !failing_here && ch.chance(1, 3) => {
                    // after the failing patch (never reached by a single-threaded run; run-ahead workers meet it
                    // and must undo whatever they did): a rename onto a directory - loading the new name is an error
                    let dirs: Vec<String> = states[0].files.keys().filter(|p| p.contains('/')).map(|p| dir_of(p).to_string()).filter(|d| states.iter().all(|st| dir_exists(st, d)) && dir_exists(&next, d)).collect();
                    if dirs.is_empty() {
                        continue;
                    }
                    let path = nonempty[ch.below(nonempty.len())].clone();
                    let newp = dirs[ch.below(dirs.len())].clone();
                    let f = next.files[&path].clone();
                    let lines = split_lines(&f.data);
                    let (nl, eops) = if ch.chance(1, 2) { gen_edit(ch, &lines, alpha, true) } else { (lines.clone(), vec![Op::Keep; lines.len()]) };
                    let chg = FileChange { old_path: path.clone(), new_path: newp.clone(), old: Some(lines.clone()), new: Some(nl), old_mode: Some(f.mode), new_mode: Some(f.mode), rename: true };
                    let fp = build_file_patch(ch, &d, &chg, &eops, c.max(1), merge);
                    feat.push("rename-onto-directory-after-the-failing-patch".into());
                    touched.push(path.clone());
                    ops.push(FileOp { kind: "rename".into(), old_path: path.clone(), new_path: newp, target: path, hunks: fp.hunks.clone(), failing_hunks: vec![], fail_reason: Some("rename-onto-directory".into()) });
                    specs.push(fp);
                }
                4 if !failing_here && ch.chance(1, 8) => {
                    // a rename entry whose source never existed while the file with the new name is there: the tool
                    // says "already has the name" and patches the file in place (its backup is the file as it was)
                    let path = nonempty[ch.below(nonempty.len())].clone();
                    let Some(a) = new_path(ch, &next, &ever, false) else { continue };
                    ever.push(a.clone());
                    let f = next.files[&path].clone();
                    let lines = split_lines(&f.data);
                    let (nl, eops) = if ch.chance(2, 3) { gen_edit(ch, &lines, alpha, true) } else { (lines.clone(), vec![Op::Keep; lines.len()]) };
                    let chg = FileChange { old_path: a.clone(), new_path: path.clone(), old: Some(lines.clone()), new: Some(nl.clone()), old_mode: Some(f.mode), new_mode: Some(f.mode), rename: true };
                    let fp = build_file_patch(ch, &d, &chg, &eops, c.max(1), merge);
                    if is_k2_shape(&fp.hunks) {
                        continue;
                    }
                    next.files.get_mut(&path).unwrap().data = B(join_lines(&nl));
                    feat.push("rename-entry-for-a-file-that-already-has-the-name".into());
                    touched.push(a.clone());
                    touched.push(path.clone());
                    ops.push(FileOp { kind: "modify".into(), old_path: a, new_path: path.clone(), target: path, hunks: fp.hunks.clone(), failing_hunks: vec![], fail_reason: None });
                    specs.push(fp);
                }
                4 => {
                    // rename (git only, forward only), optionally with an edit
                    let path = nonempty[ch.below(nonempty.len())].clone();
                    let Some(newp) = new_path(ch, &next, &ever, o.nasty_names) else { continue };
                    if !o.allow_dir_races && dir_emptied_by_removal(&next, &path) {
                        cx.exclude("dir-emptied-race-shape");
                        continue;
                    }
                    let f = next.files[&path].clone();
                    let lines = split_lines(&f.data);
                    let (nl, eops) = if ch.chance(1, 2) { gen_edit(ch, &lines, alpha, true) } else { (lines.clone(), vec![Op::Keep; lines.len()]) };
                    let chg = FileChange { old_path: path.clone(), new_path: newp.clone(), old: Some(lines.clone()), new: Some(nl.clone()), old_mode: Some(f.mode), new_mode: Some(f.mode), rename: true };
                    let mut fp = build_file_patch(ch, &d, &chg, &eops, c.max(1), merge);
                    let mut failing = vec![];
                    let mut fail_reason = None;
                    if want_fail && !fp.hunks.is_empty() && rej_dir_ok(&path) {
                        let hi = ch.below(fp.hunks.len());
                        if break_hunk(&mut fp.hunks[hi], b'-') {
                            failing = vec![hi];
                            fail_reason = Some("no-match".into());
                            any_failed = true;
                        }
                    }
                    ever.push(newp.clone());
                    if fail_reason.is_none() {
                        next.files.remove(&path);
                        next.files.insert(newp.clone(), TFile { data: B(join_lines(&nl)), mode: f.mode });
                    }
                    feat.push("rename".into());
                    touched.push(path.clone());
                    touched.push(newp.clone());
                    ops.push(FileOp { kind: "rename".into(), old_path: path.clone(), new_path: newp, target: path, hunks: fp.hunks.clone(), failing_hunks: failing, fail_reason });
                    specs.push(fp);
                }
                _ => {
                    // modify (0) or mode change (5)
                    let path = existing[ch.below(existing.len())].clone();
                    let f = next.files[&path].clone();
                    let lines = split_lines(&f.data);
                    let mode_change = kind == 5;
                    let (mut nl, mut eops) = gen_edit(ch, &lines, alpha, true);
                    if mode_change && ch.chance(1, 2) {
                        nl = lines.clone();
                        eops = vec![Op::Keep; lines.len()];
                    }
                    let new_mode = if mode_change { *ch.pick(&[0o755u32, 0o644, 0o600]) } else { f.mode };
                    if nl == lines && new_mode == f.mode {
                        continue;
                    }
                    // a second entry for the same file inside this patch
                    let dup = o.allow_dup_entries && !mode_change && nl != lines && ch.chance(1, 8) && !(failing_here && !cx.feature("KF-K4-dup-entry-in-failing-patch"));
                    let missing_file = want_fail && !lines.is_empty() && nl != lines && ch.chance(1, 4);
                    let (old_c, new_c, om, nm) = if reverse { (nl.clone(), lines.clone(), new_mode, f.mode) } else { (lines.clone(), nl.clone(), f.mode, new_mode) };
                    let ops_dir: Vec<Op> = if reverse {
                        eops.iter().map(|o| match o { Op::Del => Op::Ins, Op::Ins => Op::Del, Op::Keep => Op::Keep }).collect::<Vec<_>>()
                    } else {
                        eops.clone()
                    };
                    // canonicalise blocks after direction swap
                    let ops_dir = fix_ops(&old_c, &new_c, &canon_blocks(&ops_dir));
                    let mut path_in_patch = path.clone();
                    // a target that is a directory (in every state a push could start from)
                    let mut target_is_dir = false;
                    if o.allow_hard_error && want_fail && !missing_file && !lines.is_empty() && nl != lines && ch.chance(1, 6) {
                        let dirs: Vec<String> = states[0].files.keys().filter(|p| p.contains('/')).map(|p| dir_of(p).to_string()).filter(|d| states.iter().all(|st| dir_exists(st, d)) && dir_exists(&next, d)).collect();
                        if !dirs.is_empty() {
                            path_in_patch = dirs[ch.below(dirs.len())].clone();
                            target_is_dir = true;
                        }
                    }
                    if missing_file {
                        let cand = new_path(ch, &next, &ever, false).map(|np| if rej_dir_ok(&np) { np } else { format!("missing{}_{}.c", pi, oi) });
                        if let Some(np) = cand.filter(|np| !path_conflicts(&next, np, &ever)) {
                            ever.push(np.clone());
                            touched.push(np.clone());
                            path_in_patch = np;
                        }
                    }
                    let mut chg = FileChange { old_path: path_in_patch.clone(), new_path: path_in_patch.clone(), old: Some(old_c.clone()), new: Some(new_c.clone()), old_mode: Some(om), new_mode: Some(nm), rename: false };
                    // differing ---/+++ names (not a rename): the tool must patch the old name if that file
                    // currently exists (on disk or as left by earlier patches of the run), else the new name
                    let mut alt_note: Option<String> = None;
                    if o.alt_name_chance > 0 && !missing_file && !target_is_dir && !mode_change && ch.chance(o.alt_name_chance, 8) {
                        let gone: Vec<String> = ever.iter().filter(|p| !next.files.contains_key(*p) && !touched.contains(*p) && !path_conflicts(&next, p, &[])).cloned().collect();
                        if ch.chance(1, 2) {
                            // V1: old name does not exist (never did, or was deleted/renamed away earlier), new = the file
                            let x = if !gone.is_empty() && ch.chance(2, 3) { Some(gone[ch.below(gone.len())].clone()) } else { new_path(ch, &next, &ever, false) };
                            if let Some(x) = x {
                                alt_note = Some(if gone.contains(&x) { "alt-old-gone-earlier".into() } else { "alt-old-never-existed".into() });
                                ever.push(x.clone());
                                touched.push(x.clone());
                                chg.old_path = x;
                            }
                        } else {
                            // V2: old = the file, new name = another existing file or nothing
                            let others: Vec<String> = next.files.keys().filter(|p| **p != path && !touched.contains(*p)).cloned().collect();
                            let y = if !others.is_empty() && ch.chance(1, 2) { Some(others[ch.below(others.len())].clone()) } else { new_path(ch, &next, &ever, false) };
                            if let Some(y) = y {
                                alt_note = Some(if next.files.contains_key(&y) { "alt-new-exists-too".into() } else { "alt-new-absent".into() });
                                ever.push(y.clone());
                                touched.push(y.clone());
                                chg.new_path = y;
                            }
                        }
                    }
                    if let Some(n) = &alt_note {
                        feat.push(n.clone());
                        if reverse {
                            // the old name is looked at first whatever the direction
                            feat.push("alt-names-with-R".into());
                        }
                    }
                    let mut cc = c;
                    let mut dd = d.clone();
                    if missing_file || alt_note.is_some() || target_is_dir {
                        dd.orig_style = false;
                    }
                    let mut fp = build_file_patch(ch, &dd, &chg, &ops_dir, cc, merge);
                    if is_k2_shape(&fp.hunks) && !cx.feature("KF-C01-ctx0-single-pure-hunk") {
                        cx.exclude("KF-C01-ctx0-single-pure-hunk");
                        cc = 1;
                        fp = build_file_patch(ch, &dd, &chg, &ops_dir, cc, merge);
                    }
                    let mut failing = vec![];
                    let mut fail_reason = None;
                    if target_is_dir && !fp.hunks.is_empty() {
                        failing = (0..fp.hunks.len()).collect();
                        fail_reason = Some("target-is-directory".into());
                        any_failed = true;
                    } else if missing_file && path_in_patch != path && !fp.hunks.is_empty() {
                        failing = (0..fp.hunks.len()).collect();
                        fail_reason = Some("missing-file".into());
                        any_failed = true;
                    } else if o.allow_misordered && want_fail && !reverse && fp.hunks.len() >= 2 && rej_dir_ok(&path) && ch.chance(1, 5) {
                        // misordered hunks: swap two neighbours; the later one (now first) applies, the
                        // other one then lies before lines that are already frozen
                        let i = ch.below(fp.hunks.len() - 1);
                        fp.hunks.swap(i, i + 1);
                        failing = vec![i + 1];
                        fail_reason = Some("misordered".into());
                        any_failed = true;
                    } else if want_fail && !fp.hunks.is_empty() && rej_dir_ok(&path) {
                        let tag = if reverse { b'+' } else { b'-' };
                        let breakable: Vec<usize> = fp.hunks.iter().enumerate().filter(|(_, h)| h.lines.iter().any(|l| l.tag == tag)).map(|(i, _)| i).collect();
                        if !breakable.is_empty() {
                            let n = if breakable.len() > 1 && ch.chance(1, 2) { 1 + ch.below(breakable.len()) } else { 1 };
                            let mut picked: Vec<usize> = vec![];
                            for _ in 0..n {
                                let hi = breakable[ch.below(breakable.len())];
                                if !picked.contains(&hi) {
                                    picked.push(hi);
                                }
                            }
                            picked.sort();
                            for &hi in &picked {
                                break_hunk(&mut fp.hunks[hi], tag);
                            }
                            failing = picked;
                            fail_reason = Some("no-match".into());
                            any_failed = true;
                        }
                    }
                    if fail_reason.is_none() {
                        let e = next.files.get_mut(&path).unwrap();
                        e.data = B(join_lines(&nl));
                        e.mode = new_mode;
                        if mode_change {
                            feat.push("mode-change".into());
                        }
                    }
                    touched.push(path.clone());
                    let target = path_in_patch.clone();
                    ops.push(FileOp { kind: if mode_change { "mode".into() } else { "modify".into() }, old_path: chg.old_path.clone(), new_path: chg.new_path.clone(), target, hunks: fp.hunks.clone(), failing_hunks: failing, fail_reason: fail_reason.clone() });
                    specs.push(fp);
                    if o.allow_dup_entries && failing_here && fail_reason.as_deref() == Some("no-match") && !reverse && alt_note.is_none() && !mode_change && ch.chance(1, 3) {
                        // a second entry for the same file whose hunks cannot apply either (whatever the first entry
                        // left of the file): the reject must hold the failed hunks of both entries
                        let (nl2, eops2) = gen_edit(ch, &lines, alpha, true);
                        if nl2 != lines {
                            let chg2 = FileChange { old_path: path.clone(), new_path: path.clone(), old: Some(lines.clone()), new: Some(nl2), old_mode: Some(f.mode), new_mode: Some(f.mode), rename: false };
                            let mut fp2 = build_file_patch(ch, &dd, &chg2, &eops2, cc.max(1), Merge::Gnu);
                            fp2.hunks.retain(|h| h.lines.iter().any(|l| l.tag == b'-'));
                            if !fp2.hunks.is_empty() && !is_k2_shape(&fp2.hunks) {
                                for h in fp2.hunks.iter_mut() {
                                    for l in h.lines.iter_mut().filter(|l| l.tag == b'-') {
                                        l.text = B::new(SENTINEL);
                                    }
                                }
                                let op2 = FileOp { kind: "modify".into(), old_path: path.clone(), new_path: path.clone(), target: path.clone(), hunks: fp2.hunks.clone(), failing_hunks: (0..fp2.hunks.len()).collect(), fail_reason: Some("no-match".into()) };
                                if deferred.is_none() && ch.chance(1, 2) {
                                    // not next to the first entry: behind the entries for other files of this patch
                                    deferred = Some((ops.len(), specs.len(), path.clone(), op2, fp2));
                                } else {
                                    ops.push(op2);
                                    specs.push(fp2);
                                }
                                feat.push("two-failing-entries-for-one-file".into());
                            }
                        }
                    }
                    if dup && fail_reason.is_none() && alt_note.is_none() {
                        // second entry: another edit of the same file, on top of the first
                        let base = nl.clone();
                        let (nl2, eops2) = gen_edit(ch, &base, alpha, true);
                        if nl2 != base {
                            let (o2, n2, ops2): (Vec<B>, Vec<B>, Vec<Op>) = if reverse {
                                // reverse patches apply entries in file order too: the second entry must undo
                                // on top of the first; keep it simple and do not combine dup with -R
                                (vec![], vec![], vec![])
                            } else {
                                (base.clone(), nl2.clone(), eops2)
                            };
                            if !reverse {
                                let chg2 = FileChange { old_path: path.clone(), new_path: path.clone(), old: Some(o2), new: Some(n2), old_mode: Some(new_mode), new_mode: Some(new_mode), rename: false };
                                let fp2 = build_file_patch(ch, &dd, &chg2, &ops2, cc.max(1), Merge::Gnu);
                                if !fp2.hunks.is_empty() && !is_k2_shape(&fp2.hunks) {
                                    next.files.get_mut(&path).unwrap().data = B(join_lines(&nl2));
                                    ops.push(FileOp { kind: "modify".into(), old_path: path.clone(), new_path: path.clone(), target: path.clone(), hunks: fp2.hunks.clone(), failing_hunks: vec![], fail_reason: None });
                                    specs.push(fp2);
                                    feat.push("dup-entry".into());
                                }
                            }
                        }
                    }
                }
            }
        }
        if ops.is_empty() {
            // nothing generated (tiny trees): make a trivial create
            let path = format!("filler{}.txt", pi);
            let lines = vec![B::new("filler\n")];
            let chg = FileChange { old_path: path.clone(), new_path: path.clone(), old: if reverse { Some(lines.clone()) } else { None }, new: if reverse { None } else { Some(lines.clone()) }, old_mode: None, new_mode: Some(0o644), rename: false };
            let cops = vec![if reverse { Op::Del } else { Op::Ins }; 1];
            let fp = build_file_patch(ch, &d, &chg, &cops, 3, Merge::Gnu);
            next.files.insert(path.clone(), TFile { data: B(join_lines(&lines)), mode: 0o644 });
            ever.push(path.clone());
            ops.push(FileOp { kind: "create".into(), old_path: path.clone(), new_path: path.clone(), target: path, hunks: fp.hunks.clone(), failing_hunks: vec![], fail_reason: None });
            specs.push(fp);
        }
        if failing_here && any_failed {
            if fail_at.is_none() {
                fail_at = Some(pi);
            } else {
                feat.push("second-failing-patch".into());
            }
        }
        // render; write the broken hunks into the text (specs carry their own copy of hunks)
        for (sp, op) in specs.iter_mut().zip(ops.iter()) {
            sp.hunks = op.hunks.clone();
        }
        if let Some((pos, spos, path, op2, fp2)) = deferred.take() {
            let later_use = ops[pos..].iter().any(|o| o.target == path || o.old_path == path || o.new_path == path);
            if later_use || pos == ops.len() {
                ops.insert(pos, op2);
                specs.insert(spos, fp2);
            } else {
                if ops[pos..].iter().any(|o| !o.failing_hunks.is_empty()) {
                    feat.push("two-failing-entries-for-one-file-with-a-failing-file-between".into());
                }
                ops.push(op2);
                specs.push(fp2);
            }
        }
        let text = render_patch(&specs);
        let mut line = String::new();
        if hash_name || ch.chance(1, 10) {
            // leading white space before the patch name is ignored
            line.push_str(*ch.pick(&[" ", "  ", "\t"]));
            feat.push("series-leading-whitespace".into());
        }
        line.push_str(&name);
        let opt_style = ch.below(4);
        let explicit_strip = d.strip != 1 || ch.chance(1, 4);
        if reverse && explicit_strip && ch.chance(1, 3) {
            // combined short options, in either order
            line.push_str(&if ch.chance(1, 2) { format!(" -Rp{}", d.strip) } else { format!(" -p{} -R", d.strip) });
            feat.push("reverse".into());
            feat.push("series-combined-options".into());
        } else {
            let rev_first = reverse && ch.chance(1, 3);
            if rev_first {
                line.push_str(if ch.chance(1, 2) { " -R" } else { " --reverse" });
            }
            if explicit_strip {
                line.push_str(&match opt_style {
                    0 => format!(" -p{}", d.strip),
                    1 => format!(" -p {}", d.strip),
                    2 => format!(" --strip={}", d.strip),
                    _ => format!(" --strip {}", d.strip),
                });
            }
            if reverse && !rev_first {
                line.push_str(if ch.chance(1, 2) { " -R" } else { " --reverse" });
            }
            if reverse {
                feat.push("reverse".into());
            }
        }
        if d.strip != 1 {
            feat.push("strip!=1".into());
        }
        if d.spelling != 0 {
            feat.push(["", "name-with-doubled-slash", "name-with-interior-dot", "name-with-leading-dot", "absolute-name-stripped-by-pN"][d.spelling as usize].into());
        }
        series.push(line);
        if ch.chance(1, 10) {
            series.push("# a comment".into());
        }
        if ch.chance(1, 12) {
            series.push(String::new());
        }
        if ch.chance(1, 16) {
            series.push("   ".into());
        }
        patches.push((name.clone(), B(text)));
        metas.push(PatchMeta { name, strip: d.strip, reverse, git, ops });
        if fail_at == Some(pi) {
            // model does not advance past a failing patch, but later patches are still generated against
            // the state as if it had applied (they are never meant to be applied)
            states.push(next.clone());
        } else {
            states.push(next.clone());
        }
        cur = next;
    }
    if fail_at.is_some() {
        feat.push("failing-series".into());
    }
    let raw = |p: &String| p.chars().any(|c| (0xF780..=0xF7FF).contains(&(c as u32)));
    if states.iter().any(|st| st.files.keys().any(raw)) {
        feat.push("file-name-not-utf8".into());
        if metas.iter().any(|m| m.ops.iter().any(|o| !o.failing_hunks.is_empty() && (raw(&o.target) || raw(&o.new_path)))) {
            feat.push("failing-file-name-not-utf8".into());
        }
    }
    let mut s = series.join("\n");
    s.push('\n');
    let spec = WsSpec { tree: t0, patches, series: B(s.into_bytes()), applied: None, dirs: vec![], symlinks: vec![] };
    let mut case = WsCase { spec, states, metas, fail_at, feat };
    // a tree of DOS text files and patches written there: every line of the files and of the patch files,
    // headers included, ends in CR LF
    let no_marker = case.spec.patches.iter().all(|(_, t)| !t.0.windows(12).any(|w| w == b"\\ No newline")) && case.states.iter().all(|st| st.files.values().all(|f| f.data.is_empty() || f.data.0.last() == Some(&b'\n')));
    if o.allow_crlf && no_marker && case.metas.iter().all(|m| !m.git) && ch.chance(1, 10) {
        case.to_crlf();
    }
    case
}

fn crlf(data: &[u8]) -> Vec<u8> {
    let mut out = Vec::with_capacity(data.len() + data.len() / 16);
    for (i, &c) in data.iter().enumerate() {
        if c == b'\n' && (i == 0 || data[i - 1] != b'\r') {
            out.push(b'\r');
        }
        out.push(c);
    }
    out
}

fn canon_blocks(ops: &[Op]) -> Vec<Op> {
    let mut canon = Vec::with_capacity(ops.len());
    let mut k = 0;
    while k < ops.len() {
        if ops[k] == Op::Keep {
            canon.push(Op::Keep);
            k += 1;
        } else {
            let mut e = k;
            while e < ops.len() && ops[e] != Op::Keep {
                e += 1;
            }
            let d = ops[k..e].iter().filter(|o| **o == Op::Del).count();
            canon.extend(std::iter::repeat(Op::Del).take(d));
            canon.extend(std::iter::repeat(Op::Ins).take(e - k - d));
            k = e;
        }
    }
    canon
}

pub fn is_k2_shape(hunks: &[HHunk]) -> bool {
    hunks.len() == 1
        && hunks[0].prefix_ctx() == 0
        && hunks[0].suffix_ctx() == 0
        && ((hunks[0].old_count() == 0 && hunks[0].old_start == 0 && hunks[0].new_count() > 0) || (hunks[0].new_count() == 0 && hunks[0].new_start == 0 && hunks[0].old_count() > 0))
}

impl WsCase {
    pub fn to_crlf(&mut self) {
        for f in self.spec.tree.files.values_mut() {
            f.data = B(crlf(&f.data.0));
        }
        for st in self.states.iter_mut() {
            for f in st.files.values_mut() {
                f.data = B(crlf(&f.data.0));
            }
        }
        for p in self.spec.patches.iter_mut() {
            p.1 = B(crlf(&p.1 .0));
        }
        for m in self.metas.iter_mut() {
            for op in m.ops.iter_mut() {
                for h in op.hunks.iter_mut() {
                    for l in h.lines.iter_mut() {
                        l.text = B(crlf(&l.text.0));
                    }
                }
            }
        }
        self.feat.push("crlf-files-and-patches".into());
    }
    /// insert a zero-length patch file (which applies trivially) before patch `idx`
    pub fn insert_empty_patch(&mut self, idx: usize) {
        let name = format!("empty-{}.patch", idx);
        self.spec.patches.push((name.clone(), B(vec![])));
        // series: insert before the line of patch idx (or at the end)
        let text = String::from_utf8_lossy(&self.spec.series.0).into_owned();
        let mut lines: Vec<String> = text.lines().map(|l| l.to_string()).collect();
        let pos = if idx < self.metas.len() {
            let target = self.metas[idx].name.clone();
            lines.iter().position(|l| l.split_whitespace().next() == Some(target.as_str())).unwrap_or(lines.len())
        } else {
            lines.len()
        };
        lines.insert(pos, name.clone());
        let mut t = lines.join("\n");
        t.push('\n');
        self.spec.series = B(t.into_bytes());
        self.metas.insert(idx, PatchMeta { name, strip: 1, reverse: false, git: false, ops: vec![] });
        let st = self.states[idx].clone();
        self.states.insert(idx, st);
        if let Some(j) = self.fail_at {
            if j >= idx {
                self.fail_at = Some(j + 1);
            }
        }
        self.feat.push("zero-length-patch-file".into());
    }
    /// number of patches that apply from the start of the series
    pub fn applicable(&self) -> usize {
        self.fail_at.unwrap_or(self.metas.len())
    }
    pub fn names(&self) -> Vec<String> {
        self.metas.iter().map(|m| m.name.clone()).collect()
    }
}
