#!/usr/bin/env python3
"""Regenerates MANIFEST.json from the table below (run after adding a check)."""
import json
ALL = ["C%02d" % i for i in range(1, 21)]
# id -> (category, level text, level note, technique, design ref)
CHECKS = {
 "C01": ("exploration",
   "by-construction oracle over generated file pairs: the harness builds A, derives B by an edit script, renders the unified diff in a random accepted header dialect and requires libpatch (in-process) and the real binary (1 in 13 cases, both directions) to produce exactly B resp. A with offset 0 / fuzz 0; a sampled search over a very large input space, not a proof",
   "trusts the harness's diff renderer (self-checked by an independent exact applier in the regression inputs) and that /dev/null is the spelling of an absent side",
   "property-based testing: generated (A,B) pairs x context width x merge policy x header dialect; round-trip oracle by construction, in-process and through the binary"),
 "C11": ("exploration",
   "bounded-exhaustive enumeration of all short sequences of meaningful patch lines plus seeded random/mutational inputs, each parsed in-process under catch_unwind with an allocation bound, and a sample pushed through the real binary (as patch file and as series file); shows absence of crashes, oversized allocations and runaway work on everything generated, not for all byte strings",
   "trusts the harness's counting allocator, process isolation of shards, and that the dev-profile build (overflow checks on) is representative",
   "property-based testing: exhaustive token-sequence sweep + random/mutational generation; oracle = no panic, bounded allocation, exit status in {0,1}, CPU-time scaling sibling for termination"),
}
PENDING_REASON = "no check registered in this commit yet: its generator/oracle is designed in DESIGN.md section 7 and under construction; it is not claimed until the check exists and is silent on the unchanged tree"
NOT_APPLICABLE = {}
checks = []
for pid in ALL:
    if pid in CHECKS:
        cat, text, note, tech = CHECKS[pid]
        checks.append({
            "property_id": pid,
            "quick_cmd": "./check %s quick" % pid,
            "thorough_cmd": "./check %s thorough" % pid,
            "evidence_file": "/verif/evidence/%s.json" % pid,
            "replay_cmd_template": "./check replay {path}",
            "engine": "rqv",
            "level_claimed": {"category": cat, "text": text, "design_ref": "DESIGN.md section 7, %s" % pid},
            "level_note": note,
            "technique": tech,
        })
na = []
for pid in ALL:
    if pid not in CHECKS:
        na.append({"property_id": pid, "reason": NOT_APPLICABLE.get(pid, PENDING_REASON)})
hooks_commits = [l.strip() for l in open('/verif/HOOK_COMMITS.txt')] if __import__('os').path.exists('/verif/HOOK_COMMITS.txt') else []
m = {
  "version": 1,
  "setup_cmd": "./check build",
  "hooks": {
    "guard": "--cfg opensuse_rapidquilt_verif",
    "enable": "RUSTFLAGS=\"--cfg opensuse_rapidquilt_verif\" cargo build --offline --manifest-path /repo/Cargo.toml --bin rapidquilt --target-dir /verif/target/repo (done by ./check before every run)",
    "baseline_off_cmd": "cd /repo && cargo test --workspace --no-fail-fast --offline",
    "source_commits": hooks_commits,
    "add_only": True,
  },
  "engines": [{
    "name": "rqv", "path": "harness/", "serves_properties": sorted(CHECKS),
    "kind_free_text": "Rust harness: seeded, 16-way sharded proptest TestRunner over choice-stream generators, bounded-exhaustive sweeps, in-process libpatch oracles and subprocess runs of the real binary; shrinks failures and writes replay files; known findings in KNOWN_FINDINGS.txt",
  }],
  "checks": checks,
  "not_applicable": na,
  "notes": "Every check: ./check <id> <tier> rebuilds /repo's working tree (hooks on, dev profile) and the harness, runs 16 seeded shards (VERIF_SEED), rewrites evidence/<id>.json; exit 0 held, 1 VIOLATION line, 2 inconclusive/could not run.",
}
json.dump(m, open('/verif/MANIFEST.json', 'w'), indent=1)
print("wrote MANIFEST.json:", len(checks), "checks,", len(na), "not claimed")
