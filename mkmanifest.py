#!/usr/bin/env python3
"""Regenerates MANIFEST.json from the table below (run after adding a check)."""
import json
ALL = ["C%02d" % i for i in range(1, 21)]
# id -> (category, level text, level note, technique, design ref)
CHECKS = {
 "C12": ("exploration",
   "round-trip oracle over generated inputs: patch files of generated workspaces in every dialect, token soups of meaningful lines and mutated testdata; whatever the parser accepts is written, re-parsed, compared structurally (kind, names, rename, modes, hashes, both line sequences and start lines per hunk) and written again (fixed point)",
   "per-line context/changed classification and the function text are not compared; one open known finding (hunkless git entries the writer cannot represent) is tolerated by an exact signature",
   "property-based testing: round trip parse-write-parse-write over structured, token-level and mutational generators"),
 "C06": ("exploration",
   "differential test against the single-threaded run under schedules the harness owns: the cfg-guarded turnstile orders the start and end of every file patch application and the save-phase file operations according to a script; per workspace a free run, targeted extremes (worker owning the failing file patch last / first; a later failure reported after an earlier one), several random linear extensions, and for small workspaces EVERY linear extension of the apply phase (capped at 24 quick / 120 thorough) are forced; beyond that bound schedules are sampled, not enumerated",
   "assumes workers interact only at the hooked points (they share one atomic); forced runs whose trace shows a stall release are counted but not trusted as forced",
   "property-based testing with harness-owned schedules (seeded random linear extensions + targeted extremes); differential oracle vs --threads 1"),
 "C07": ("exploration",
   "bounded-exhaustive sweep of all sequences of (name, related name) pairs up to length 5/6 over 4 names x thread counts 2-4 plus random longer sequences, fed to the real FilenameDistributor through a cfg-guarded sub-command and compared with a union-find oracle; plus traced parallel pushes of generated series with chained differing names",
   "the sub-command uses String keys instead of paths; beyond the bound only sampled",
   "property-based testing: exhaustive small-scope sweep + random sequences; oracle = union-find reference model; trace invariant at CLI level"),
 "C18": ("fault_enumeration",
   "for every generated workspace the n output operations of the push are listed through a cfg-guarded hook and every single one (k = 1..n) is failed in turn on a fresh copy; additionally write(2) itself is made to fail through RLIMIT_FSIZE, the push is run as an unprivileged user against a read-only directory (unlink fails) or a read-only parent of a directory it empties (rmdir fails), and real obstacles are placed (.pc or a backup directory being a regular file, the reject path being a directory); each faulty run must exit 1 with a message naming the file and must not record patches whose files are not all written",
   "faults at operation boundaries, EFBIG inside write(2), wrong-type path components and a dangling symbolic link into a missing directory where a file is created; no partial-write-then-success, fsync or crash faults",
   "fault injection enumerated per generated workspace (every k-th output operation) + kernel-level write faults; oracle = exit status / message / applied-patches invariant"),
 "C16": ("exploration",
   "generated workspaces with -pN/-R spellings, names spelled a//b, a/./b, ./a/b or absolute with the root as first stripped component, DOS line ends, and differing ---/+++ names (also under -R) whose resolution depends on files created, deleted or renamed earlier in the same run; each is pushed sequentially, in parallel and split over two invocations; all must equal the model tree and the backup entries must name the resolved path",
   "trusts the model's statement of the resolution rule (old name if it currently exists, else new name)",
   "property-based testing: workspace generator with name-resolution model; oracle = model comparison + agreement of three execution modes"),
 "C17": ("exploration",
   "generated workspaces put into a consistent 'm patches applied' state and then made inconsistent in one of ~16 ways (applied-patches edited/unreadable/reordered/longer, unknown or applied goal, patch missing, a directory, or unparseable at any position); exit status must be exactly 1 with a message and the full snapshot unchanged",
   "blank lines/comments in applied-patches are treated as consistent (the tool accepts them)",
   "property-based testing: generated inconsistent states; oracle = exit status 1 + unchanged snapshot invariant"),
 "C19": ("exploration",
   "generated escaping file names (.., absolute, quoted spellings) in every header position x strip level x patch kind, run inside a sentinel directory with victim files where the names point; nothing outside the workspace may change and an escaping patch must be refused with exit 1; a second family pushes ordinary generated workspaces with -d from a launch directory full of decoys (same-named directories and files, a decoy of a backup that cannot be saved, dangling links at reject paths pointing outside) and requires everything outside the workspace to stay untouched",
   "escape judged lexically after stripping; names with '..' that stay inside may be refused or applied",
   "property-based testing: grammar-based name generator; oracle = sentinel snapshot invariant + refusal"),
 "C08": ("exploration",
   "generated workspaces, optionally with prior applied state, pushed with every backup mode/count/goal/thread combination; .pc/** is compared file by file with the model state just before each patch of the N-window, nothing else may exist under .pc, and a simulated pop (restore newest-first) must recreate the model tree before the window",
   "trusts the tree model; absent and zero-length files are identified after the simulated pop (quilt's format cannot tell them apart)",
   "property-based testing: workspace generator with model T_0..T_n; oracle = expected backup set by construction + simulated quilt pop"),
 "C09": ("exploration",
   "generated histories: a push to goal g cut into 1-5 invocations (push / push N / push <name> / -a, own options each) versus one invocation on a fresh copy; trees (files and directories), rejects and applied-patches must be identical; an extra push with nothing to do must leave the full snapshot (inodes, mtimes) untouched, a repeat of a failed push must fail identically",
   "backup directories are not compared across differently split runs; two open known findings (a path that changes between file and directory within one invocation; an empty start directory in which a file is created and deleted again) are tolerated by exact signatures and their shapes excluded from the generators",
   "property-based testing: stateful histories of invocations with a metamorphic (split vs single) oracle"),
 "C10": ("exploration",
   "generated workspaces incl. failing series, stale .pc/<patch>/ directories and dangling symbolic links at files to be created, run with --dry-run under all option combinations; full recursive snapshot (bytes, modes, inodes, link counts, pinned mtimes of files and directories) must be unchanged and exit status / failing patch must equal a real run on a copy",
   "observation by snapshot rather than syscall tracing",
   "property-based testing: snapshot invariant + differential against the real run"),
 "C14": ("exploration",
   "generated workspaces (zero-length source and patch files, failing series, an unloadable patch behind the failing one, prior applied state, goals incl. already-applied names) run with -q/default loader and with sampled presentation/loader option sets; tree, .pc/**, rejects and exit status must be identical",
   "only a sample of option combinations per workspace (3 quick / 6 thorough of 11 sets)",
   "property-based testing: differential oracle across option variants of the same run"),
 "C15": ("exploration",
   "generated workspaces hard-linked into a twin tree; after the push the twin (incl. stale rejects and stale .pc backups) must keep bytes and modes, changed files must be fresh inodes, files not named in the pushed range must keep inode, link count 2 and pinned mtime; a second phase runs the push as an unprivileged user with a read-only directory (unlink fails, file writable): the twin must still be intact and the push must fail",
   "inode identity judged against the twin, observation by snapshot",
   "property-based testing: hard-link twin invariant over generated workspaces"),
 "C02": ("exploration",
   "bounded-exhaustive sweep (every single hunk with <=2 context lines each side and <=1 removed/added line over a two-letter alphabet, against every file up to length 5/6, every stated line, every fuzz limit <=2) plus seeded random multi-hunk cases; each reported placement is checked against a brute-force reference of the patch(1) rules (old side really there, anchoring, nearest match with forward ties, lowest admissible fuzz level, no-match only when no level admits a position)",
   "trusts the reference model's reading of the rules; where the statement admits two readings both are accepted and counted (lenient_skips)",
   "property-based testing: exhaustive small-alphabet sweep + random generation; oracle = independent brute-force reference model of placement"),
 "C03": ("exploration",
   "seeded random multi-hunk patches over small repetitive files (overlapping contexts, contexts over changed lines, shuffled order, fuzz, both directions); the patched file must equal an independent reconstruction from the hunk reports in which only changed lines are replaced",
   "the reconstruction takes the reported positions as given (their correctness is C02); sampled, not exhaustive",
   "property-based testing: generated multi-hunk patches; oracle = line-level reconstruction from reports (reference model)"),
 "C04": ("exploration",
   "seeded random histories of 1-5 applications (modify with partial failures, create, delete, truncate, mode change; both directions; fuzz 0-2) on one file followed by LIFO rollback; after each undo the {content, deleted, permissions} must equal the recorded earlier state and nothing may panic; 1 case in 60 is a generated failing workspace pushed through the binary, whose rollback (incl. renames) must leave the model tree",
   "in-process part uses the libpatch API the binary uses; sampled histories",
   "property-based testing: stateful histories (apply* then rollback*) with an inverse oracle"),
 "C05": ("exploration",
   "generated quilt workspaces with an independent tree model: the real binary is run on thousands of by-construction series (failures injected at any position/subset incl. renames that cannot be carried out and several failing entries for one file, all operations, dialects and name spellings, options, goals up to 2^64-1) and exit status, tree (bytes+modes), applied-patches and the set of rejects are compared with the model",
   "trusts the harness's tree model and diff renderer; shapes of open known findings are excluded by construction and counted",
   "property-based testing: workspace generator with by-construction model T_0..T_n; oracle = model comparison after running the binary"),
 "C13": ("exploration",
   "generated failing quilt workspaces; the set of *.rej files and, through the harness's own unified-diff reader, their hunks (of all failing entries for the file, in patch order) are compared with the generator's knowledge of which hunks cannot apply; longer stale rejects of an earlier push lie at the same paths; each reject must also be accepted by the tool's parser and name its file; file and directory names include ones that are not UTF-8 (Latin-1 bytes)",
   "trusts the generator's failure injection (sentinel lines, missing files, create-over-existing, delete mismatch)",
   "property-based testing: failure-injecting workspace generator; oracle = expected reject set and contents by construction"),
 "C20": ("exploration",
   "metamorphic relation between two runs of the same generated input at fuzz limits F < F': whenever the F run applies completely the F' run must too, with the identical result (in-process at file-patch level, incl. long files with a far exact match and a nearer decoy, and through the binary on generated series, incl. series longer than the default backup count)",
   "only complete successes at F constrain the F' run",
   "property-based testing: metamorphic oracle over generated hunks/series and pairs of fuzz limits"),
 "C01": ("exploration",
   "by-construction oracle over generated file pairs: the harness builds A, derives B by an edit script, renders the unified diff in a random accepted header dialect and requires libpatch (in-process) and the real binary (1 in 13 cases, both directions) to produce exactly B resp. A with offset 0 / fuzz 0 (incl. lines of 64 KiB and more and file names that are not UTF-8); a sampled search over a very large input space, not a proof",
   "trusts the harness's diff renderer (self-checked by an independent exact applier in the regression inputs) and that /dev/null is the spelling of an absent side",
   "property-based testing: generated (A,B) pairs x context width x merge policy x header dialect; round-trip oracle by construction, in-process and through the binary"),
 "C11": ("exploration",
   "bounded-exhaustive enumeration of all short sequences of meaningful patch lines plus seeded random/mutational inputs, each parsed in-process under catch_unwind with an allocation bound and a watchdog, every accepted patch also applied and rolled back in-process, and about a quarter of the random inputs pushed through the real binary (as patch file and as series file); shows absence of crashes, oversized allocations and runaway work on everything generated, not for all byte strings",
   "trusts the harness's counting allocator, process isolation of shards, and that the dev-profile build (overflow checks on) is representative",
   "property-based testing: exhaustive token-sequence sweep + random/mutational generation; oracle = no panic, bounded allocation, exit status in {0,1}, CPU-time scaling sibling for termination"),
}
PENDING_REASON = "no check registered in this commit yet: its generator/oracle is designed in DESIGN.md section 7 and under construction; it is not claimed until the check exists and is silent on the unchanged tree"
NOT_APPLICABLE = {}
checks = []
for pid in ALL:
    if pid in CHECKS:
        cat, text, note, tech = CHECKS[pid]
        checks.append({
            "property_id": pid,
            "quick_cmd": "./check %s quick" % pid,
            "thorough_cmd": "./check %s thorough" % pid,
            "evidence_file": "/verif/evidence/%s.json" % pid,
            "replay_cmd_template": "./check replay {path}",
            "engine": "rqv",
            "level_claimed": {"category": cat, "text": text, "design_ref": "DESIGN.md section 7, %s" % pid},
            "level_note": note,
            "technique": tech + (" ; thorough tier adds a coverage-guided libFuzzer stage (cargo-fuzz target with the same oracle inside)" if pid in ("C02","C03","C04","C11","C12") else ""),
        })
na = []
for pid in ALL:
    if pid not in CHECKS:
        na.append({"property_id": pid, "reason": NOT_APPLICABLE.get(pid, PENDING_REASON)})
hooks_commits = [l.strip() for l in open('/verif/HOOK_COMMITS.txt')] if __import__('os').path.exists('/verif/HOOK_COMMITS.txt') else []
m = {
  "version": 1,
  "setup_cmd": "./check build",
  "hooks": {
    "guard": "--cfg opensuse_rapidquilt_verif",
    "enable": "RUSTFLAGS=\"--cfg opensuse_rapidquilt_verif\" cargo build --offline --manifest-path /repo/Cargo.toml --bin rapidquilt --target-dir /verif/target/repo (done by ./check before every run)",
    "baseline_off_cmd": "cd /repo && cargo test --workspace --no-fail-fast --offline",
    "source_commits": hooks_commits,
    "add_only": True,
  },
  "engines": [{
    "name": "rqv", "path": "harness/", "serves_properties": sorted(CHECKS),
    "kind_free_text": "Rust harness: seeded, 16-way sharded proptest TestRunner over choice-stream generators, bounded-exhaustive sweeps, in-process libpatch oracles and subprocess runs of the real binary; shrinks failures and writes replay files; known findings in KNOWN_FINDINGS.txt",
  }, {
    "name": "rqv-fuzz", "path": "fuzz/", "serves_properties": ["C02", "C03", "C04", "C11", "C12"],
    "kind_free_text": "cargo-fuzz (libFuzzer) targets parse, roundtrip and place; place feeds the fuzzer's bytes as the choice stream of the harness's structured generator; oracles are the harness checks; run by the thorough tiers",
  }],
  "checks": checks,
  "not_applicable": na,
  "notes": "Every check: ./check <id> <tier> rebuilds /repo's working tree (hooks on, dev profile) and the harness, runs 16 seeded shards (VERIF_SEED), rewrites evidence/<id>.json; exit 0 held, 1 VIOLATION line, 2 inconclusive/could not run.",
}
json.dump(m, open('/verif/MANIFEST.json', 'w'), indent=1)
print("wrote MANIFEST.json:", len(checks), "checks,", len(na), "not claimed")
