#!/usr/bin/env python3
"""mut.py <file-in-repo> <old> <new> <prop>... : apply a textual mutation to /repo, run quick checks, restore."""
import subprocess, sys, os
f, old, new = sys.argv[1:4]; props = sys.argv[4:]
os.chdir('/repo')
if subprocess.run(['git','diff','--quiet']).returncode != 0:
    print("repo dirty"); sys.exit(2)
s = open(f).read()
if s.count(old) < 1:
    print("MUTATION DID NOT APPLY"); sys.exit(2)
open(f,'w').write(s.replace(old, new, 1))
print("MUTANT:", f, "::", old.strip()[:70], "=>", new.strip()[:70])
try:
    for p in props:
        r = subprocess.run(['/verif/check', p, 'quick'], capture_output=True, text=True)
        out = [l for l in r.stdout.splitlines() if 'PROPTEST_MAX' not in l]
        if any(l.startswith('VIOLATION') for l in out):
            d = [l for l in out if l.startswith('violation detail')]
            print("  %s: CAUGHT  %s" % (p, (d[0][18:] if d else '')[:170]))
        else:
            print("  %s: missed  rc=%d %s" % (p, r.returncode, (out[-1] if out else '')[:200]))
finally:
    subprocess.run(['git','checkout','--','.'])
    for x in os.listdir('/verif/replays'):
        if x.endswith('.json'): os.remove('/verif/replays/'+x)
