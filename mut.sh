#!/bin/bash
# usage: mut.sh '<sed-expr>' <file-in-repo> <prop>...   -- applies a one-line mutation to /repo, runs the checks, restores
set -u
expr="$1"; file="$2"; shift 2
cd /repo || exit 2
git diff --quiet || { echo "repo dirty"; exit 2; }
sed -i "$expr" "$file"
if git diff --quiet; then echo "MUTATION DID NOT APPLY"; exit 2; fi
git diff | grep '^[-+]' | grep -v '^+++\|^---'
for p in "$@"; do
  out=$(/verif/check $p quick 2>&1 | grep -v PROPTEST_MAX)
  if echo "$out" | grep -q "^VIOLATION"; then echo "  $p: CAUGHT  $(echo "$out" | grep 'violation detail' | cut -c1-160)"; else echo "  $p: missed   $(echo "$out" | tail -1 | cut -c1-200)"; fi
done
git checkout -- . ; rm -f /verif/replays/*.json
