#!/bin/bash
# runall.sh [tier] [seed]: every check once; prints one line per check
tier=${1:-quick}; export VERIF_SEED=${2:-0}
cd /verif
for i in $(seq -w 1 20); do
  t0=$(date +%s)
  out=$(./check C$i $tier 2>&1 | grep -v PROPTEST_MAX)
  rc=$?
  t1=$(date +%s)
  v=$(echo "$out" | grep -c "^VIOLATION")
  k=$(echo "$out" | grep -c "^KNOWN-FINDING")
  echo "C$i $tier seed=$VERIF_SEED: $( [ $v -gt 0 ] && echo VIOLATION || echo ok ) known=$k $((t1-t0))s :: $(echo "$out" | grep -E "^C$i " | tail -1 | cut -c1-140)"
  [ $v -gt 0 ] && echo "$out" | grep -E "violation detail|^VIOLATION|INCONCLUSIVE" | cut -c1-300
done
