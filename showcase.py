#!/usr/bin/env python3
import json,sys
d=json.load(open(sys.argv[1]))
print("MSG:", d['message'][:2000])
c=d['case']
for k,v in c.items():
    if isinstance(v,str) and '\\n' in v:
        print("---",k,"---"); print(v.replace('\\n','\n'))
    else:
        print(k,"=",json.dumps(v)[:1500])
