#!/usr/bin/env python3
import json,sys
d=json.load(open(sys.argv[1]))
print("MSG:", d['message'][:3000])
c=d['case']; ws=c.get('ws',c)
for k,v in c.items():
    if k!='ws': print(k,'=',json.dumps(v)[:400])
print("series:", ws['spec']['series'], "applied:", ws['spec'].get('applied'))
for n,t in ws['spec']['patches']:
    print("=== ",n); print(t.replace('\\n','\n'))
print("T0:", {k:(v['data'][:50],oct(v['mode'])) for k,v in ws['spec']['tree']['files'].items()})
print("fail_at", ws['fail_at'], ws['feat'])
for m in ws['metas']:
    print(m['name'], 'strip',m['strip'], 'R' if m['reverse'] else '', [(o['kind'],o['old_path'],o['new_path'],o['target'],o['failing_hunks'],o['fail_reason']) for o in m['ops']])
