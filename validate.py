#!/opt/veriftools/pyvenv/bin/python
import json, sys, glob, jsonschema
m=json.load(open('/verif/MANIFEST.json')); s=json.load(open('/root/.vp/MANIFEST.schema.json')); jsonschema.validate(m,s); print("manifest ok", len(m['checks']), "checks")
es=json.load(open('/root/.vp/EVIDENCE.schema.json'))
for f in sorted(glob.glob('/verif/evidence/*.json')):
    e=json.load(open(f)); jsonschema.validate(e,es); c=e['coverage']; print(f, "ok", e['tier'], "evals", c['evaluations'], "distinct", c['distinct_nontrivial'], "wall", e['wall_s'])
ids=[json.loads(l)['id'] for l in open('/verif/properties.jsonl')]
claimed={c['property_id'] for c in m['checks']}; na={n['property_id'] for n in m.get('not_applicable',[])}
print("unclaimed:", [i for i in ids if i not in claimed and i not in na])
